#!/usr/bin/env bash
# Self-test of the monitors: apply each seeded change to /repo, run the targeted check, undo.
#   ./selftest.sh [name ...]      (names are directories under /verif/seeded; default: all)
#   TIER=thorough ./selftest.sh   to use the thorough tier
set -u
ROOT="$(cd "$(dirname "${BASH_SOURCE[0]}")" && pwd)"
TIER="${TIER:-quick}"
if [ -n "$(git -C /repo status --porcelain --untracked-files=no)" ]; then echo "/repo has uncommitted changes; refusing"; exit 2; fi
names=("$@"); if [ ${#names[@]} -eq 0 ]; then names=($(ls "$ROOT/seeded")); fi
pass=0; fail=0
for n in "${names[@]}"; do
  d="$ROOT/seeded/$n"; [ -f "$d/patch.diff" ] || continue
  prop=$(python3 -c "import json;print(json.load(open('$d/meta.json'))['property'])")
  checks=$(python3 -c "import json;m=json.load(open('$d/meta.json'));print(' '.join(m.get('also_check',[])))")
  if ! git -C /repo apply --check "$d/patch.diff" 2>/dev/null; then echo "$n: patch does not apply"; fail=$((fail+1)); continue; fi
  git -C /repo apply "$d/patch.diff"
  caught=""
  for p in $prop $checks; do
    s=$(date +%s)
    VERIF_EVIDENCE_DIR="$ROOT/work/selftest-evidence" VERIF_SEED="${VERIF_SEED:-1}" "$ROOT/check" "$p" "$TIER" > "$ROOT/work/selftest-$n-$p.log" 2>&1; rc=$?
    e=$(date +%s)
    if [ $rc -eq 1 ] && grep -q "^VIOLATION property=$p" "$ROOT/work/selftest-$n-$p.log"; then caught="$caught $p($((e-s))s)"; fi
    [ "$p" = "$prop" ] && primary_rc=$rc
  done
  git -C /repo checkout -- . ; git -C /repo clean -fdq -- core orchestrator front-end 2>/dev/null
  if [ -n "$caught" ]; then echo "$n: CAUGHT by$caught"; pass=$((pass+1)); else echo "$n: MISSED by $prop (rc=$primary_rc)"; fail=$((fail+1)); fi
done
echo "selftest: $pass caught, $fail missed"
# evidence of these runs goes to work/selftest-evidence, /verif/evidence is left alone
[ $fail -eq 0 ]
