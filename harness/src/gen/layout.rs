//! G-layout: turns a token list into text. A layout is a list of pieces (program tokens and
//! decorations such as comments and directives) and the gap strings between them, so a
//! *re-layout* can change exactly those gaps the C06 precondition allows to change.

use super::gram::{GTok, Program, GK};
use crate::rng::Rng;

#[derive(Clone, Debug, PartialEq, Eq)]
pub enum PieceKind {
    /// program token (index into Program.toks)
    Tok(usize),
    LineComment,
    BlockComment,
    /// `{$...}` compiler or conditional directive
    Directive,
    /// extra code token that is not part of the role-annotated program (alternative branches)
    Extra,
}

#[derive(Clone, Debug)]
pub struct Piece {
    pub kind: PieceKind,
    pub text: String,
    /// inside a `pasfmt off` region (the toggle comments themselves included)
    pub verbatim: bool,
}

#[derive(Clone, Debug)]
pub struct Layout {
    pub pieces: Vec<Piece>,
    /// gaps[i] precedes pieces[i]; gaps[pieces.len()] is the tail after the last piece
    pub gaps: Vec<String>,
    pub nl: &'static str,
    /// (first piece, last piece) of each verbatim region
    pub regions: Vec<(usize, usize)>,
    /// lower-cased text of the tokens after which an own-line comment was put in the middle of
    /// a statement or declaration
    pub odd_comment_after: Vec<String>,
}

#[derive(Clone, Copy, Debug, PartialEq, Eq)]
pub enum Style {
    Canonical,
    OneLine,
    TokenPerLine,
    Random,
}

#[derive(Clone, Debug)]
pub struct DecoOpts {
    /// per-mille probabilities
    pub own_line_comment: u32,
    pub trailing_comment: u32,
    pub inline_block_comment: u32,
    pub own_line_directive: u32,
    pub cond_wrap: u32,
    pub blank_line: u32,
    pub regions: u32,
    /// own-line comment between two arbitrary tokens of a statement/declaration
    pub odd_comment: u32,
    /// `{$IFDEF X}, Arg{$ELSE}, Other{$ENDIF}` around one element of a comma-separated list
    /// (arguments, set elements, enum values, units of a uses clause), per eligible comma
    pub inline_cond: u32,
}

impl DecoOpts {
    pub fn none() -> Self {
        DecoOpts { own_line_comment: 0, trailing_comment: 0, inline_block_comment: 0, own_line_directive: 0, cond_wrap: 0, blank_line: 0, regions: 0, odd_comment: 0, inline_cond: 0 }
    }
    pub fn light() -> Self {
        DecoOpts { own_line_comment: 60, trailing_comment: 60, inline_block_comment: 8, own_line_directive: 25, cond_wrap: 25, blank_line: 120, regions: 0, odd_comment: 0, inline_cond: 0 }
    }
    pub fn heavy() -> Self {
        DecoOpts { own_line_comment: 200, trailing_comment: 200, inline_block_comment: 40, own_line_directive: 80, cond_wrap: 80, blank_line: 250, regions: 0, odd_comment: 0, inline_cond: 0 }
    }
}

/// sometimes a line comment after an own-line directive (`{$IFDEF X} // why`)
fn directive_trailing_comment(rng: &mut Rng, deco: &DecoOpts, pieces: &mut Vec<Piece>, gaps: &mut Vec<String>) {
    if deco.trailing_comment > 0 && rng.chance(deco.trailing_comment, 1000) {
        gaps.push(" ".to_string());
        pieces.push(Piece { kind: PieceKind::LineComment, text: line_comment_text(rng), verbatim: false });
    }
}

/// `toks[comma]` is a comma; if it starts a removable element of a comma-separated list (the
/// element ends before the next `,` `)` `]` or `;` at the same nesting depth and holds nothing that
/// would make the list invalid without it), the index of the token that follows the element
fn list_element_end(toks: &[GTok], comma: usize) -> Option<usize> {
    let mut depth = 0usize;
    let mut j = comma + 1;
    while j < toks.len() && j - comma <= 12 {
        let t = &toks[j];
        if t.line_start || t.kind == GK::MlStr {
            return None;
        }
        match t.text.as_str() {
            "(" | "[" => depth += 1,
            ")" | "]" => {
                if depth == 0 {
                    return if j > comma + 1 { Some(j) } else { None };
                }
                depth -= 1;
            }
            "," | ";" if depth == 0 => return if j > comma + 1 { Some(j) } else { None },
            // declarations (`A, B: T`), case labels, width specifiers, generic argument lists,
            // anonymous routines: leaving the element out would not leave a valid list
            ":" | "<" | ">" | ";" | "=" | ":=" => return None,
            w if t.kind == GK::Keyword && matches!(w.to_ascii_lowercase().as_str(), "begin" | "end" | "procedure" | "function" | "of" | "do" | "then" | "index" | "name" | "in") => return None,
            _ => {}
        }
        j += 1;
    }
    None
}

fn first_char(s: &str) -> char {
    s.chars().next().unwrap_or(' ')
}
fn last_char(s: &str) -> char {
    s.chars().next_back().unwrap_or(' ')
}
fn wordish(c: char) -> bool {
    c.is_ascii_alphanumeric() || c == '_' || c as u32 >= 0x80 || matches!(c, '\'' | '#' | '$' | '%' | '&')
}

/// May the two pieces be written without any blank between them and still scan as the same two
/// tokens? Deliberately conservative.
pub fn safe_glue(prev: &Piece, next: &Piece) -> bool {
    if !matches!(prev.kind, PieceKind::Tok(_) | PieceKind::Extra) || !matches!(next.kind, PieceKind::Tok(_) | PieceKind::Extra) {
        return false;
    }
    let a = last_char(&prev.text);
    let b = first_char(&next.text);
    let pt = prev.text.as_str();
    let nt = next.text.as_str();
    if wordish(a) && wordish(b) {
        return false;
    }
    let is_simple_punct = |t: &str| matches!(t, "(" | ")" | "[" | "]" | "," | ";");
    if is_simple_punct(pt) || is_simple_punct(nt) {
        // digraphs `(*`, `(.`, `.)`, `*)`
        if pt == "(" && (b == '*' || b == '.') {
            return false;
        }
        if nt == ")" && (a == '.' || a == '*') {
            return false;
        }
        return true;
    }
    let is_num = |t: &str| t.chars().next().is_some_and(|c| c.is_ascii_digit());
    // a one-character arithmetic/comparison operator next to an operand (never next to another operator)
    let is_op1 = |t: &str| matches!(t, "+" | "-" | "*" | "=" | "<" | ">" | "@");
    let operand_start = |c: char| c.is_ascii_alphanumeric() || c == '_' || c == '\'' || c == '$' || c == '#' || c == '(' || c == '[';
    let operand_end = |c: char| c.is_ascii_alphanumeric() || c == '_' || c == '\'' || c == ')' || c == ']';
    if is_op1(pt) && operand_start(b) && !(pt == "(" ) {
        return true;
    }
    if is_op1(nt) && operand_end(a) && !(is_num(pt) && false) {
        // `1e` style exponents cannot occur: number tokens are complete
        return true;
    }
    if (pt == "." || pt == "^" || pt == "@") && (b.is_ascii_alphabetic() || b == '_') {
        return !is_num(nt);
    }
    if (nt == "." || nt == "^") && (a.is_ascii_alphabetic() || a == '_' || a == ')' || a == ']' || a == '^') {
        return !is_num(pt) && !(a.is_ascii_digit());
    }
    false
}

fn nl_count(gap: &str) -> usize {
    gap.bytes().filter(|&b| b == b'\n').count()
}

fn touches_comment(pieces: &[Piece], gap_idx: usize) -> bool {
    let is_c = |p: &Piece| matches!(p.kind, PieceKind::LineComment | PieceKind::BlockComment);
    (gap_idx > 0 && is_c(&pieces[gap_idx - 1])) || (gap_idx < pieces.len() && is_c(&pieces[gap_idx]))
}
fn touches_directive(pieces: &[Piece], gap_idx: usize) -> bool {
    let is_d = |p: &Piece| matches!(p.kind, PieceKind::Directive);
    (gap_idx > 0 && is_d(&pieces[gap_idx - 1])) || (gap_idx < pieces.len() && is_d(&pieces[gap_idx]))
}
fn in_verbatim(pieces: &[Piece], gap_idx: usize) -> bool {
    // a gap is kept if it touches verbatim material: inside a `pasfmt off` region, or before /
    // after an asm instruction (line breaks inside asm blocks are significant)
    let prev = gap_idx > 0 && pieces[gap_idx - 1].verbatim;
    let next = gap_idx < pieces.len() && pieces[gap_idx].verbatim;
    prev || next
}

const COMMENT_WORDS: &[&str] = &["note", "TODO: fix", "x", "begin", "end;", "if a then", "'quote", "{brace", "(*", "ünï", "a  b", "pasfmt", "offline", "$IFDEF"];

fn line_comment_text(rng: &mut Rng) -> String {
    let body = *rng.pick(COMMENT_WORDS);
    match rng.below(8) {
        0 => format!("//{body}"),
        1 => format!("///{body}"),
        2 => format!("/// {body}"),
        3 => (*rng.pick(&[
            "//----------------------------------------",
            "//---------  ",
            "//=====      ",
            "//*********\t",
            "//--------- ",
            "////////////   ",
            "//////////////////\t ",
            "//////////",
            "//-=-=-=-=-=-=-=  ",
        ]))
        .to_string(),
        4 => format!("// {body}   "),
        5 => "//".to_string(),
        _ => format!("// {body}"),
    }
}
fn block_comment_text(rng: &mut Rng, nl: &str, allow_multiline: bool) -> String {
    let body = *rng.pick(&["c", "note here", " spaced ", "begin", "'", "//", "x;y"]);
    match rng.below(6) {
        0 => format!("(*{body}*)"),
        1 => format!("(* {body} *)"),
        2 if allow_multiline => format!("{{ {body}{nl}   second line }}"),
        3 if allow_multiline => format!("(* {body}{nl}more *)"),
        _ => format!("{{ {body} }}"),
    }
}
fn directive_text(rng: &mut Rng) -> String {
    (*rng.pick(&["{$R+}", "{$r-}", "{$REGION 'abc'}", "{$ENDREGION}", "{$WARN SYMBOL_DEPRECATED OFF}", "{$define foo}", "{$I foo.inc}", "{$q+,r-}", "(*$Z4*)", "{$hints off}", "{$M 16384,1048576}", "{$include include/defs.inc}", "{$region 'region one'}", "{$i i.inc}", "{$warn warn_symbol off}", "(*$define define_x*)"])).to_string()
}

impl Layout {
    pub fn render(&self) -> String {
        let mut s = String::new();
        for (i, p) in self.pieces.iter().enumerate() {
            s.push_str(&self.gaps[i]);
            s.push_str(&p.text);
        }
        s.push_str(&self.gaps[self.pieces.len()]);
        s
    }
    /// the same layout with every line break of every gap written as a lone CR (classic Mac
    /// endings); token text is untouched
    pub fn with_cr_endings(&self) -> Layout {
        let mut l = self.clone();
        for g in l.gaps.iter_mut() {
            *g = g.replace("\r\n", "\r").replace('\n', "\r");
        }
        l.nl = "\r";
        l
    }

    /// byte span of every piece in the rendered text
    pub fn spans(&self) -> Vec<(usize, usize)> {
        let mut v = Vec::with_capacity(self.pieces.len());
        let mut pos = 0;
        for (i, p) in self.pieces.iter().enumerate() {
            pos += self.gaps[i].len();
            v.push((pos, pos + p.text.len()));
            pos += p.text.len();
        }
        v
    }
    /// piece index of each program token
    pub fn tok_piece(&self, ntoks: usize) -> Vec<usize> {
        let mut v = vec![usize::MAX; ntoks];
        for (i, p) in self.pieces.iter().enumerate() {
            if let PieceKind::Tok(t) = p.kind {
                v[t] = i;
            }
        }
        v
    }

    /// Build the base layout of a program: canonical style with decorations.
    pub fn build(prog: &Program, rng: &mut Rng, deco: &DecoOpts, crlf: bool, ml_indent: &str) -> Layout {
        let nl: &'static str = if crlf { "\r\n" } else { "\n" };
        let toks = &prog.toks;
        let mut pieces: Vec<Piece> = Vec::with_capacity(toks.len() + 8);
        let mut gaps: Vec<String> = Vec::with_capacity(toks.len() + 9);
        let indent_unit = "  ";
        let render_tok = |t: &GTok, indent: &str| -> String {
            if t.kind == GK::MlStr {
                // interior lines and the closing quotes carry the base indentation `ml_indent`,
                // placed after the statement indentation so the literal is conforming
                let base = format!("{indent}{ml_indent}");
                t.text.replace('\u{1}', &format!("{nl}{base}"))
            } else {
                t.text.clone()
            }
        };

        // statements that may be wrapped in conditional directives: (first tok, tok after last)
        let mut wrap_start: std::collections::HashMap<usize, usize> = Default::default();
        // alternative branch (`{$ELSE}` + one complete statement/declaration of the right kind) per wrap
        let mut wrap_alt: std::collections::HashMap<usize, Vec<&'static str>> = Default::default();
        if deco.cond_wrap > 0 {
            for b in &prog.blocks {
                let n = b.items.len();
                for k in 0..n {
                    let end = if k + 1 < n { Some(b.items[k + 1]) } else { b.closer };
                    if let Some(end) = end {
                        if end > b.items[k] && rng.chance(deco.cond_wrap, 1000) {
                            wrap_start.insert(b.items[k], end);
                            if rng.chance(1, 3) {
                                use crate::gen::gram::BlockKind as BK;
                                let alt: Option<Vec<&'static str>> = match b.kind {
                                    BK::CtrlBegin | BK::PlainBegin | BK::AnonBegin | BK::Repeat | BK::Try | BK::Finally | BK::CaseElse | BK::UnitSection => Some(vec!["AltCall", "(", "1", ")", ";"]),
                                    BK::DeclSection => match toks[b.opener].text.to_ascii_lowercase().as_str() {
                                        "const" => Some(vec!["AltConst", "=", "1", ";"]),
                                        "var" | "threadvar" => Some(vec!["AltVar", ":", "Integer", ";"]),
                                        "type" => Some(vec!["TAlt", "=", "Integer", ";"]),
                                        _ => None,
                                    },
                                    BK::Visibility | BK::TypeBody => Some(vec!["procedure", "AltMethod", ";"]),
                                    // an `on` handler list takes handlers only
                                    BK::Except => None,
                                };
                                if let Some(a) = alt {
                                    wrap_alt.insert(b.items[k], a);
                                }
                            }
                        }
                    }
                }
            }
        }
        // pending `{$ENDIF}` insertions keyed by token index before which they go (stack for nesting)
        let mut pending_end: Vec<(usize, String, u16, Option<Vec<&'static str>>)> = vec![];

        // a conditional list element that is open: (token before which it closes, closing pieces)
        let mut inline_end: Option<(usize, Vec<Piece>)> = None;

        let mut cur_indent = String::new();
        let mut odd_comment_after: Vec<String> = vec![];
        for (ti, t) in toks.iter().enumerate() {
            if inline_end.as_ref().is_some_and(|(e, _)| *e == ti) {
                let (_, closing) = inline_end.take().unwrap();
                for p in closing {
                    gaps.push(if p.kind == PieceKind::Extra && p.text != "," { " ".to_string() } else { String::new() });
                    pieces.push(p);
                }
            }
            let indent: String = indent_unit.repeat(t.depth as usize);
            if t.line_start {
                cur_indent = indent.clone();
            }
            // close conditional wraps that end before this token
            while let Some(pos) = pending_end.iter().rposition(|(e, _, _, _)| *e == ti) {
                let (_, text, d, alt) = pending_end.remove(pos);
                let ind = indent_unit.repeat(d as usize);
                if let Some(alt) = alt {
                    gaps.push(format!("{nl}{ind}"));
                    // `{$IFEND}` closes a `{$IF`: the alternative may then be an `{$ELSEIF expr}` whose expression
                    // holds comment closers inside string literals
                    let alt_dir: String = if text == "{$IFEND}" && rng.bool() {
                        (*rng.pick(&["{$ELSEIF Defined(FOO)}", "{$ELSEIF BraceStyle = '}'}", "{$elseif (Mode = '{') or (Mode = '}')}", "{$ELSEIF Declared(X) and (S <> '*)')}", "{$ElseIf Defined(A) and (Sep = '}{')}"])).to_string()
                    } else if rng.chance(1, 5) {
                        "{$else}".into()
                    } else {
                        "{$ELSE}".into()
                    };
                    pieces.push(Piece { kind: PieceKind::Directive, text: alt_dir, verbatim: false });
                    directive_trailing_comment(rng, deco, &mut pieces, &mut gaps);
                    for (k, w) in alt.iter().enumerate() {
                        gaps.push(if k == 0 { format!("{nl}{ind}") } else if matches!(*w, "(" | ")" | ";" | ":") { String::new() } else { " ".to_string() });
                        pieces.push(Piece { kind: PieceKind::Extra, text: w.to_string(), verbatim: false });
                    }
                }
                gaps.push(format!("{nl}{ind}"));
                pieces.push(Piece { kind: PieceKind::Directive, text, verbatim: false });
                directive_trailing_comment(rng, deco, &mut pieces, &mut gaps);
            }
            let mut own_line_emitted = false;
            if t.line_start {
                // blank line group
                let mut lead = String::new();
                if !pieces.is_empty() {
                    lead.push_str(nl);
                    if rng.chance(deco.blank_line, 1000) {
                        lead.push_str(nl);
                        if rng.chance(1, 6) {
                            lead.push_str(nl);
                        }
                    }
                }
                // own-line decorations
                let mut n_deco = 0;
                while n_deco < 2 && rng.chance(deco.own_line_comment, 1000) {
                    n_deco += 1;
                    gaps.push(format!("{lead}{indent}"));
                    lead = nl.to_string();
                    if rng.chance(2, 3) {
                        pieces.push(Piece { kind: PieceKind::LineComment, text: line_comment_text(rng), verbatim: false });
                    } else {
                        pieces.push(Piece { kind: PieceKind::BlockComment, text: block_comment_text(rng, nl, true), verbatim: false });
                    }
                    own_line_emitted = true;
                }
                if rng.chance(deco.own_line_directive, 1000) {
                    gaps.push(format!("{lead}{indent}"));
                    lead = nl.to_string();
                    pieces.push(Piece { kind: PieceKind::Directive, text: directive_text(rng), verbatim: false });
                    directive_trailing_comment(rng, deco, &mut pieces, &mut gaps);
                    own_line_emitted = true;
                }
                if let Some(&end) = wrap_start.get(&ti) {
                    let name = *rng.pick(&["DEBUG", "MSWINDOWS", "foo", "CPUX64"]);
                    let open = match rng.below(5) {
                        0 => format!("{{$ifdef {name}}}"),
                        1 => format!("{{$IFNDEF {name}}}"),
                        2 if rng.chance(1, 3) => format!("{{$IF (Brace = '}}') or Defined({name})}}"),
                        2 => format!("{{$IF Defined({name}) and (CompilerVersion >= 30)}}"),
                        3 => (*rng.pick(&["(*$IFDEF {}*)", "(*$ifdef {}*)", "(*$IfNDef {}*)", "(*$if Defined({})*)"])).replace("{}", name),
                        _ => format!("{{$IFDEF {name}}}"),
                    };
                    let close = if open.starts_with("{$IF ") {
                        if rng.bool() { "{$IFEND}" } else { "{$ENDIF}" }
                    } else if open.starts_with("(*") {
                        *rng.pick(&["(*$endif*)", "(*$ENDIF*)", "{$ENDIF}", "(*$EndIf*)"])
                    } else if rng.chance(1, 5) {
                        "{$endif}"
                    } else {
                        "{$ENDIF}"
                    };
                    gaps.push(format!("{lead}{indent}"));
                    lead = nl.to_string();
                    pieces.push(Piece { kind: PieceKind::Directive, text: open, verbatim: false });
                    directive_trailing_comment(rng, deco, &mut pieces, &mut gaps);
                    pending_end.push((end, close.to_string(), t.depth, wrap_alt.remove(&ti)));
                    own_line_emitted = true;
                }
                let _ = own_line_emitted;
                gaps.push(format!("{lead}{indent}"));
            } else {
                // within a line
                if t.text == "," && inline_end.is_none() && deco.inline_cond > 0 && rng.chance(deco.inline_cond, 1000) {
                    if let Some(end) = list_element_end(toks, ti) {
                        let name = *rng.pick(&["DEBUG", "MSWINDOWS", "foo", "CPUX64"]);
                        let open = if rng.chance(1, 4) { format!("{{$IFNDEF {name}}}") } else { format!("{{$IFDEF {name}}}") };
                        gaps.push(if rng.bool() { " ".to_string() } else { String::new() });
                        pieces.push(Piece { kind: PieceKind::Directive, text: open, verbatim: false });
                        let mut closing = vec![];
                        if rng.chance(1, 3) {
                            closing.push(Piece { kind: PieceKind::Directive, text: "{$ELSE}".into(), verbatim: false });
                            closing.push(Piece { kind: PieceKind::Extra, text: ",".into(), verbatim: false });
                            closing.push(Piece { kind: PieceKind::Extra, text: (*rng.pick(&["Other", "AltValue", "42", "Fallback.Unit1"])).to_string(), verbatim: false });
                        }
                        closing.push(Piece { kind: PieceKind::Directive, text: if rng.chance(1, 5) { "{$endif}".into() } else { "{$ENDIF}".into() }, verbatim: false });
                        inline_end = Some((end, closing));
                    }
                }
                let prev = pieces.last();
                let tight = t.tight_left || prev.is_some_and(|p| matches!(p.kind, PieceKind::Tok(pi) if toks[pi].tight_right));
                let cand = Piece { kind: PieceKind::Tok(ti), text: t.text.clone(), verbatim: false };
                let mut gap = if tight && prev.is_some_and(|p| safe_glue(p, &cand)) { String::new() } else { " ".to_string() };
                if let Some(p) = prev {
                    if p.kind == PieceKind::LineComment {
                        gap = format!("{nl}{cur_indent}    ");
                    }
                }
                // own-line comment in the middle of a statement / declaration
                if rng.chance(deco.odd_comment, 1000) && prev.is_some() {
                    let prev_is_line_comment = prev.is_some_and(|p| p.kind == PieceKind::LineComment);
                    if let Some(p) = prev {
                        let mut w = p.text.to_ascii_lowercase();
                        // (the previous *token*: comments between `helper` and `for` do not count)
                        let before = pieces[..pieces.len() - 1].iter().rev().find(|q| matches!(q.kind, PieceKind::Tok(_) | PieceKind::Extra));
                        if w == "for" && before.is_some_and(|q| q.text.eq_ignore_ascii_case("helper")) {
                            w = "helper for".to_string();
                        }
                        odd_comment_after.push(w);
                    }
                    gaps.push(if prev_is_line_comment { gap.clone() } else { format!("{nl}{cur_indent}      ") });
                    if rng.bool() {
                        pieces.push(Piece { kind: PieceKind::BlockComment, text: block_comment_text(rng, nl, false), verbatim: false });
                    } else {
                        pieces.push(Piece { kind: PieceKind::LineComment, text: line_comment_text(rng), verbatim: false });
                    }
                    gap = format!("{nl}{cur_indent}    ");
                }
                let prev = pieces.last();
                // inline block comment before this token
                if rng.chance(deco.inline_block_comment, 1000) && prev.is_some() && !prev.is_some_and(|p| p.kind == PieceKind::LineComment) {
                    gaps.push(" ".to_string());
                    pieces.push(Piece { kind: PieceKind::BlockComment, text: block_comment_text(rng, nl, false), verbatim: false });
                    gap = " ".to_string();
                }
                gaps.push(gap);
            }
            pieces.push(Piece { kind: PieceKind::Tok(ti), text: render_tok(t, &cur_indent), verbatim: false });
            if t.line_end && rng.chance(deco.trailing_comment, 1000) {
                gaps.push(if rng.chance(1, 4) { "  ".into() } else { " ".into() });
                pieces.push(Piece { kind: PieceKind::LineComment, text: line_comment_text(rng), verbatim: false });
            }
        }
        if let Some((_, closing)) = inline_end.take() {
            for p in closing {
                gaps.push(String::new());
                pieces.push(p);
            }
        }
        // close wraps that extend to the end (should not happen since ends are tokens)
        for (_, text, d, _) in pending_end.drain(..).rev() {
            gaps.push(format!("{nl}{}", indent_unit.repeat(d as usize)));
            pieces.push(Piece { kind: PieceKind::Directive, text, verbatim: false });
        }
        gaps.push(nl.to_string());
        Layout { pieces, gaps, nl, regions: vec![], odd_comment_after }
    }

    /// An admissible re-layout (C06): token order, comment-touching gaps, gaps with two or more
    /// line breaks and verbatim regions are kept; every other gap is re-drawn in the given style.
    pub fn relayout(&self, rng: &mut Rng, style: Style, change_directive_gaps: bool) -> (Layout, usize) {
        let mut out = self.clone();
        let mut changed = 0;
        let n = self.pieces.len();
        for gi in 0..=n {
            if in_verbatim(&self.pieces, gi) || touches_comment(&self.pieces, gi) {
                continue;
            }
            if !change_directive_gaps && touches_directive(&self.pieces, gi) {
                continue;
            }
            let old = &self.gaps[gi];
            let nls = nl_count(old);
            if gi == n {
                // tail: any amount of blanks/line breaks
                let new = match rng.below(5) {
                    0 => String::new(),
                    1 => " ".to_string(),
                    2 => format!("{}{}", self.nl, self.nl),
                    3 => format!("  {}\t", self.nl),
                    _ => self.nl.to_string(),
                };
                if &new != old {
                    changed += 1;
                }
                out.gaps[gi] = new;
                continue;
            }
            let must_sep = gi == 0 || !safe_glue(&self.pieces[gi - 1], &self.pieces[gi]);
            let new = if nls >= 2 {
                // keep the number of line breaks, vary horizontal blanks
                let mut g = String::new();
                for k in 0..nls {
                    if k > 0 && rng.chance(1, 4) {
                        g.push_str(*rng.pick(&[" ", "\t", "   "]));
                    }
                    g.push_str(self.nl);
                }
                g.push_str(&" ".repeat(rng.below(9)));
                g
            } else if gi == 0 {
                match rng.below(3) {
                    0 => String::new(),
                    1 => "   ".to_string(),
                    _ => old.clone(),
                }
            } else {
                match style {
                    Style::Canonical => old.clone(),
                    Style::OneLine => " ".to_string(),
                    Style::TokenPerLine => format!("{}{}", self.nl, " ".repeat(rng.below(5))),
                    Style::Random => match rng.below(9) {
                        0 if !must_sep => String::new(),
                        1 => "  ".to_string(),
                        2 => "\t".to_string(),
                        3 => self.nl.to_string(),
                        4 => format!("{}{}", self.nl, " ".repeat(rng.below(12))),
                        5 => format!(" {}\t", self.nl),
                        6 => format!("{}{}", " ".repeat(rng.range(1, 6)), ""),
                        _ => " ".to_string(),
                    },
                }
            };
            if &new != old {
                changed += 1;
            }
            out.gaps[gi] = new;
        }
        (out, changed)
    }
}

impl Layout {
    /// Layout of an existing text (seeds): pieces are the reference scanner's tokens.
    pub fn from_text(text: &str) -> Layout {
        use crate::refscan::{self, RK};
        let toks = refscan::scan(text);
        let mask = crate::oracle::verbatim_mask(text, &toks);
        let mut pieces = Vec::with_capacity(toks.len());
        let mut gaps = Vec::with_capacity(toks.len() + 1);
        let mut pos = 0;
        for (i, t) in toks.iter().enumerate() {
            gaps.push(text[pos..t.start].to_string());
            let kind = match t.kind {
                RK::LineComment => PieceKind::LineComment,
                RK::BlockComment => PieceKind::BlockComment,
                RK::Directive => PieceKind::Directive,
                _ => PieceKind::Extra,
            };
            pieces.push(Piece { kind, text: t.text(text).to_string(), verbatim: mask[i] });
            pos = t.end;
        }
        gaps.push(text[pos..].to_string());
        let nl = if text.contains("\r\n") { "\r\n" } else { "\n" };
        Layout { pieces, gaps, nl, regions: vec![], odd_comment_after: vec![] }
    }
}
