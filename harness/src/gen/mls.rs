//! G-mls: multi-line string literals whose text and *value* are known by construction.

use crate::rng::Rng;

#[derive(Clone, Debug)]
pub struct Mls {
    /// full literal text as placed in the input
    pub text: String,
    /// all interior lines start with the closing line's indentation, or are a prefix of it
    pub conforming: bool,
    /// interior lines with the base indentation removed (value of the literal, line by line)
    pub value_lines: Vec<String>,
    pub quotes: usize,
    pub base: String,
    /// description of the shape for evidence
    pub shape: String,
}

const BASES: &[&str] = &["", "  ", "    ", "      ", "\t", "\t\t", " \t", "\u{3000}", "  \u{b}", "        ", "          ", "\u{a0}", "  \u{2003}", " \u{a0} ", "                                                                                "];
const CONTENTS: &[&str] = &["text", "select *", "it's", "x", "  more indented", "\ttabbed", "a 'quoted' b", "ünï", "trailing  ", "trailing\t", "''", "end;", "// c", "{ c }", "  ", "\t", "   \t ", "\u{a0}", "a\u{a0}b", "\u{2003}\u{2003}", "\u{85}"];

/// append a line ending; a lone CR directly followed by LF would read as one CRLF, so an LF
/// after a text that ends in CR (empty line after a CR ending) is written as CRLF
fn push_ending(text: &mut String, ending: &str) {
    if text.ends_with('\r') && ending == "\n" {
        text.push_str("\r\n");
    } else {
        text.push_str(ending);
    }
}

pub fn gen(rng: &mut Rng) -> Mls {
    let quotes = *rng.pick(&[3usize, 3, 3, 3, 5, 7]);
    let q = "'".repeat(quotes);
    let base = (*rng.pick(BASES)).to_string();
    let endings: &[&str] = match rng.below(5) {
        0 => &["\n"],
        1 => &["\r\n"],
        2 => &["\r"],
        _ => &["\n", "\r\n", "\r", "\n"],
    };
    let n = rng.range(0, 5);
    let mut text = q.clone();
    let mut value_lines = vec![];
    // an "indentation" holding a character that is not a Delphi blank (NBSP, EM SPACE ...) is text
    // before the closing quotes: such a literal has no valid closing line and must be left alone
    let mut conforming = base.chars().all(|c| c <= ' ' || c == '\u{3000}');
    let mut shape = format!("q{quotes} base={:?} n={n}", base);
    for _ in 0..n {
        push_ending(&mut text, rng.pick_str(endings));
        match rng.below(12) {
            0 => {
                // blank line
                value_lines.push(String::new());
                shape.push_str(" blank");
            }
            1 if !base.is_empty() => {
                // strict prefix of the base indentation
                let mut cut = rng.below(base.len());
                while !base.is_char_boundary(cut) {
                    cut -= 1;
                }
                text.push_str(&base[..cut]);
                value_lines.push(String::new());
                shape.push_str(" prefix");
            }
            2 if !base.is_empty() => {
                // under-indented line with content: violates the rule
                let mut cut = rng.below(base.len());
                while !base.is_char_boundary(cut) {
                    cut -= 1;
                }
                text.push_str(&base[..cut]);
                // incl. lines made only of characters that Unicode calls white space but Delphi and C01 do not
                // (blank = up to U+0020 and U+3000): they are content
                let u = *rng.pick(&["under", "ab", "x", "x1", "\u{a0}", "\u{a0} ", "\u{2003}", "\u{85}", "\u{2028}", "\u{feff}", "\u{a0}\u{a0}x"]);
                text.push_str(u);
                conforming = false;
                value_lines.push(u.to_string());
                shape.push_str(" under");
            }
            3 => {
                // exactly the base indentation and nothing else
                text.push_str(&base);
                value_lines.push(String::new());
                shape.push_str(" baseonly");
            }
            4 if quotes > 3 => {
                // embedded shorter quote run
                text.push_str(&base);
                text.push_str("has ''' inside");
                value_lines.push("has ''' inside".to_string());
                shape.push_str(" embedded");
            }
            _ => {
                let c = *rng.pick(CONTENTS);
                text.push_str(&base);
                text.push_str(c);
                value_lines.push(c.to_string());
            }
        }
    }
    push_ending(&mut text, rng.pick_str(endings));
    text.push_str(&base);
    if rng.chance(1, 14) {
        // text before the closing quotes: not a valid closing line; must be left alone
        text.push_str("oops ");
        conforming = false;
        shape.push_str(" text-before-close");
    }
    text.push_str(&q);
    Mls { text, conforming, value_lines, quotes, base, shape }
}

/// carrier programs with one `{}` placeholder per literal; every carrier is valid Delphi
pub const CARRIERS: &[&str] = &[
    "const\n  S = {};\n",
    "begin\n  X := {};\nend;\n",
    "begin\n  Foo({}, 1);\nend;\n",
    "begin\n  Foo(1, {});\nend;\n",
    "begin\n  X := {}.Trim;\nend;\n",
    "begin\n  X := A + {} + B;\nend;\n",
    "begin\n  if A then\n  begin\n    for I := 0 to 1 do\n      X := {};\n  end;\nend;\n",
    "begin\n  Run(procedure\n    begin\n      X := {};\n    end);\nend;\n",
    "begin\n  X := Format({}, [A, B]);\nend;\n",
    "begin\n  X := {}; Y := {};\nend;\n",
    "procedure P;\nconst\n  A = {};\n  B = {};\nbegin\n  try\n    Q := {};\n  finally\n    R;\n  end;\nend;\n",
    "begin\n  X := Foo(Bar(Baz({})));\nend;\n",
    "begin\n  case X of\n    1: Y := {};\n  end;\nend;\n",
    "var\n  S: string = {};\n",
    "begin\n  X := AVeryLongFunctionName(AnotherVeryLongArgumentName, {}, YetAnotherQuiteLongArgumentName);\nend;\n",
    "begin\n  X := Foo({}, {});\nend;\n",
    "begin\n  X := {} + {};\nend;\n",
    "begin\n  X := {}.Format([{}, Aaaaaaa, Bbbbbbbbb]);\nend;\n",
    "begin\n  Foo({}.Format([Aaaaaaa, Bbbbbbbbb, Cccccccc]), {});\nend;\n",
    // text after the closing quotes that can be wrapped; literal as the body of a control statement
    "begin\n  if A then\n    X := {}.Replace(Aaaaa, Bbbbbb);\nend;\n",
    "begin\n  X := {}.Replace(Aaaaa, Bbbbbb).Trim([Cccc, Dddd]);\nend;\n",
    // a second literal nested two and more levels below the statement that holds the first
    "begin\n  Query.Text := {}.ForEachLine(procedure(const Line: string) begin if Line <> \'\' then Log.Add({}); end);\nend;\n",
    "begin\n  Run({}, procedure\n    begin\n      while A do\n        Foo(procedure\n          begin\n            X := {};\n          end);\n    end);\nend;\n",
    // statements split by conditional directives (their lines share the tokens after the directive),
    // after an earlier statement whose literal may need re-indenting
    "begin\n  S := {};\n  X :=\n{$IFDEF A}\n      {}\n{$ELSE}\n{$ENDIF}\n      + B;\nend;\n",
    "begin\n  S := {};\n  X := Foo(\n{$IFDEF A}\n    {},\n{$ELSE}\n    Other,\n{$ENDIF}\n    Tail) + C;\n  Y := {};\nend;\n",
    // three branches, the middle one empty
    "begin\n  X :=\n{$IFDEF A}\n      {}\n{$ELSEIF B}\n{$ELSE}\n      {}\n{$ENDIF}\n      + Tail;\nend;\n",
    // a receiver literal written far to the right (the call after it only fits once the literal has been
    // re-indented) whose argument is an anonymous method holding another literal
    "begin\n  Query.Text := \'\'\'\n                                                                      select id\n                                                                      \'\'\'.ForEach(procedure(const Line: string) begin if Line <> \'\' then Log.Add({}); end);\nend;\n",
    "begin\n  Header := \'\'\'\n                                                  name;count\n                                                  \'\'\'.ForEach(procedure(const Column: string) begin\n    Log.Add(Column);\n    Footer := {};\n  end);\nend;\n",
    "begin\n  if A then\n    X := \'\'\'\n                                                            a\n                                                            \'\'\'.Replace(Aaaaa, procedure begin Y := {}; Z := 1; end);\nend;\n",
];

/// expand a carrier with literals; returns (program text, byte offset of each literal)
pub fn place(carrier: &str, lits: &[Mls]) -> (String, Vec<usize>) {
    let mut out = String::new();
    let mut offs = vec![];
    let mut k = 0;
    let mut rest = carrier;
    while let Some(p) = rest.find("{}") {
        out.push_str(&rest[..p]);
        offs.push(out.len());
        out.push_str(&lits[k % lits.len()].text);
        k += 1;
        rest = &rest[p + 2..];
    }
    out.push_str(rest);
    (out, offs)
}

pub fn placeholders(carrier: &str) -> usize {
    carrier.matches("{}").count()
}
