pub mod gram;
pub mod layout;
pub mod soup;
pub mod mls;
