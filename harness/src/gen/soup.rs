//! G-soup: invalid, half-typed and hostile inputs.

use crate::refscan;
use crate::rng::Rng;

/// lexemes that open/close constructs, operators, brackets, literals (incl. unterminated),
/// comments, directives, toggles and unknown bytes
pub const ALPHABET: &[&str] = &[
    // construct keywords
    "begin", "end", "if", "then", "else", "case", "of", "for", "to", "do", "while", "repeat", "until", "with", "try",
    "except", "finally", "on", "raise", "procedure", "function", "constructor", "destructor", "operator", "class",
    "record", "object", "interface", "dispinterface", "type", "var", "const", "label", "threadvar", "resourcestring",
    "property", "unit", "program", "library", "package", "uses", "implementation", "initialization", "finalization",
    "asm", "inherited", "goto", "in", "is", "as", "not", "and", "array", "set", "file", "packed", "helper", "reference",
    "private", "public", "strict", "published", "read", "write", "default", "overload", "external", "name", "index",
    "exports", "requires", "contains", "at", "absolute", "out", "forward", "message", "deprecated",
    // operators and brackets
    "(", ")", "[", "]", "<", ">", ",", ";", ":", ":=", "=", "<>", ".", "..", "^", "@", "+", "-", "*", "/",
    // identifiers and literals
    "Foo", "a", "1", "1.5", "$FF", "'s'", "'unterminated", "#13", "'''\nml\n'''", "&begin",
    // comments, directives, toggles
    "// c\n", "{c}", "(*c*)", "{unterminated", "{$IFDEF A}", "{$ELSE}", "{$ENDIF}", "{$IF X}", "{$ELSEIF Y}", "{$R+}",
    "{pasfmt off}", "// pasfmt on\n",
    // unknown / exotic
    "?", "\"", "\u{3000}", "é",
    "\u{3001}", "\u{300c}B\u{300d}", "\u{3002}", "A\u{3001}B",
];

/// construct-opening sub-alphabet for deeper exhaustive enumeration
pub const OPENERS: &[&str] = &[
    "begin", "end", "if", "then", "else", "case", "of", "for", "do", "while", "repeat", "until", "try", "except",
    "finally", "procedure", "function", "class", "record", "interface", "type", "var", "const", "property", "asm",
    "(", ")", "[", "]", "<", ">", ";", ":", ":=", "=", ".", "^", "a", "1", "{$IFDEF A}", "{$ENDIF}",
];

pub fn exhaustive(alphabet: &'static [&'static str], len: usize, mut idx: u64) -> Vec<&'static str> {
    let mut v = Vec::with_capacity(len);
    let n = alphabet.len() as u64;
    for _ in 0..len {
        let k = (idx % n) as usize;
        idx /= n;
        v.push(alphabet[k]);
    }
    v
}

pub fn join(seq: &[&str], sep: &str) -> String {
    let mut s = String::new();
    for (i, t) in seq.iter().enumerate() {
        if i > 0 {
            s.push_str(sep);
        }
        s.push_str(t);
    }
    s
}

pub fn random_seq(rng: &mut Rng, max_len: usize) -> String {
    let n = rng.range(1, max_len);
    let mut s = String::new();
    let seps: &[&str] = &[" ", " ", " ", "\n", "\n  ", "", "\t", "\r\n", "  ", "\n\n\n", "\r"];
    for i in 0..n {
        if i > 0 {
            s.push_str(rng.pick_str(seps));
        }
        let lex = if rng.chance(1, 12) { *rng.pick(OPENERS) } else { *rng.pick(ALPHABET) };
        s.push_str(lex);
    }
    if rng.chance(1, 3) {
        s.push_str(rng.pick_str(seps));
    }
    s
}

/// token-level and character-level mutations of an existing program
pub fn mutate(rng: &mut Rng, src: &str) -> String {
    let toks = refscan::scan(src);
    if toks.is_empty() {
        return random_seq(rng, 10);
    }
    let mut s = src.to_string();
    let n_mut = rng.range(1, 3);
    for _ in 0..n_mut {
        let toks = refscan::scan(&s);
        if toks.is_empty() {
            break;
        }
        let t = *rng.pick(&toks);
        match rng.below(9) {
            0 => {
                // delete token
                s.replace_range(t.start..t.end, "");
            }
            1 => {
                // duplicate token
                let txt = s[t.start..t.end].to_string();
                s.insert_str(t.end, &format!(" {txt}"));
            }
            2 => {
                // replace by random lexeme
                s.replace_range(t.start..t.end, rng.pick_str(ALPHABET));
            }
            3 => {
                // swap with another token
                let u = *rng.pick(&toks);
                if u.end <= t.start || t.end <= u.start {
                    let (a, b) = if t.start < u.start { (t, u) } else { (u, t) };
                    let ta = s[a.start..a.end].to_string();
                    let tb = s[b.start..b.end].to_string();
                    s.replace_range(b.start..b.end, &ta);
                    s.replace_range(a.start..a.end, &tb);
                }
            }
            4 => {
                // truncate at a character boundary
                let mut cut = rng.below(s.len() + 1);
                while !s.is_char_boundary(cut) {
                    cut -= 1;
                }
                s.truncate(cut);
            }
            5 => {
                // insert a lexeme before the token
                s.insert_str(t.start, &format!("{} ", rng.pick_str(ALPHABET)));
            }
            6 => {
                // delete a whole range of tokens
                let u = *rng.pick(&toks);
                let (a, b) = if t.start < u.start { (t.start, u.end) } else { (u.start, t.end) };
                if b - a < 400 {
                    s.replace_range(a..b, "");
                }
            }
            7 => {
                // drop the head
                let mut cut = t.start;
                while !s.is_char_boundary(cut) {
                    cut -= 1;
                }
                s = s[cut..].to_string();
            }
            _ => {
                // change a line ending / insert odd blank
                s.insert_str(t.start, rng.pick_str(&["\r", "\u{3000}", "\u{0}", "\u{b}", "\u{feff}", "\t"]));
            }
        }
    }
    s
}

/// splice several programs at token boundaries
pub fn splice(rng: &mut Rng, parts: &[&str]) -> String {
    let mut out = String::new();
    for (k, p) in parts.iter().enumerate() {
        let toks = refscan::scan(p);
        if toks.is_empty() {
            continue;
        }
        let a = rng.below(toks.len());
        let b = rng.range(a, toks.len() - 1);
        let (s, e) = if k == 0 { (0, toks[b].end) } else if k == parts.len() - 1 { (toks[a].start, p.len()) } else { (toks[a].start, toks[b].end) };
        out.push_str(&p[s..e]);
        out.push_str(rng.pick_str(&["\n", " ", "\n\n"]));
    }
    out
}

pub fn byte_soup(rng: &mut Rng, max_len: usize) -> String {
    const CHARS: &[char] = &[
        'a', 'Z', '_', '0', '9', ' ', ' ', '\n', '\r', '\t', '\u{0}', '\u{1}', '\u{b}', '\u{1f}', '\u{7f}', '\u{80}', '\u{a0}',
        '\u{3000}', '\u{feff}', '\u{1F600}', 'é', '漢', '\'', '"', '{', '}', '(', ')', '*', '/', '$', '#', '&', '%', '^', '@',
        '<', '>', '=', ':', ';', '.', ',', '[', ']', '+', '-', '\\', '?', '!', '`', '~', '|',
        // neighbours of U+3000 in its block (CJK punctuation), other Unicode spaces and separators
        '\u{3001}', '\u{3002}', '\u{300c}', '\u{303f}', '\u{2fff}', '\u{2003}', '\u{2028}', '\u{85}', '\u{b2}',
    ];
    let n = rng.below(max_len + 1);
    let mut s = String::new();
    for _ in 0..n {
        if rng.chance(1, 10) {
            s.push_str(rng.pick_str(ALPHABET));
        } else if rng.chance(1, 40) {
            // arbitrary scalar value
            let c = char::from_u32(rng.below(0x11_0000) as u32).unwrap_or('\u{fffd}');
            s.push(c);
        } else {
            s.push(*rng.pick(CHARS));
        }
    }
    s
}

/// scaling families for the growth monitor; returns (name, text)
pub const FAMILIES: &[&str] = &[
    "seq-ifdef", "nested-ifdef", "seq-ifdef-else", "nested-ifdef-else", "ifdef-elseif-chain", "nested-parens", "nested-brackets", "nested-begin", "nested-anon",
    "op-chain", "param-list", "many-statements", "anon-arg-calls", "nested-if-then", "nested-case", "unterminated-parens", "nested-if-expr-directive",
    "long-call-args", "nested-generics", "class-members", "nested-for-long-header", "else-if-chain-long-cond", "nested-while-long-cond", "nested-if-long-cond",
    "nested-with-on-long",
];

pub fn family(name: &str, n: usize) -> String {
    let mut s = String::new();
    match name {
        "seq-ifdef" => {
            s.push_str("procedure P;\nbegin\n");
            for i in 0..n {
                s.push_str(&format!("{{$IFDEF A{i}}}\n  Foo{i};\n{{$ENDIF}}\n"));
            }
            s.push_str("end;\n");
        }
        "seq-ifdef-else" => {
            s.push_str("procedure P;\nbegin\n");
            for i in 0..n {
                s.push_str(&format!("{{$IFDEF A{i}}}\n  Foo{i};\n{{$ELSE}}\n  Bar{i};\n{{$ENDIF}}\n"));
            }
            s.push_str("end;\n");
        }
        "nested-ifdef" => {
            s.push_str("begin\n");
            for i in 0..n {
                s.push_str(&format!("{{$IFDEF A{i}}}\nFoo{i};\n"));
            }
            for _ in 0..n {
                s.push_str("{$ENDIF}\n");
            }
            s.push_str("end.\n");
        }
        "nested-ifdef-else" => {
            s.push_str("begin\n");
            for i in 0..n {
                s.push_str(&format!("{{$IFDEF A{i}}}\nFoo{i};\n"));
            }
            for i in 0..n {
                s.push_str(&format!("{{$ELSE}}\nBar{i};\n{{$ENDIF}}\n"));
            }
            s.push_str("end.\n");
        }
        "ifdef-elseif-chain" => {
            s.push_str("begin\n{$IF A}\nFoo;\n");
            for i in 0..n {
                s.push_str(&format!("{{$ELSEIF B{i}}}\nFoo{i};\n"));
            }
            s.push_str("{$IFEND}\nend.\n");
        }
        "nested-parens" => {
            s.push_str("begin\n  X := ");
            for _ in 0..n {
                s.push_str("(1 + ");
            }
            s.push('2');
            for _ in 0..n {
                s.push(')');
            }
            s.push_str(";\nend.\n");
        }
        "nested-brackets" => {
            s.push_str("begin\n  X := A");
            for _ in 0..n {
                s.push_str("[B");
            }
            for _ in 0..n {
                s.push(']');
            }
            s.push_str(";\nend.\n");
        }
        "nested-begin" => {
            for _ in 0..n {
                s.push_str("begin\n");
            }
            s.push_str("Foo;\n");
            for _ in 0..n {
                s.push_str("end;\n");
            }
        }
        "nested-anon" => {
            s.push_str("begin\n  Foo(");
            for _ in 0..n {
                s.push_str("procedure begin Bar(");
            }
            s.push('1');
            for _ in 0..n {
                s.push_str("); Baz; end");
            }
            s.push_str(");\nend.\n");
        }
        "op-chain" => {
            s.push_str("begin\n  X := A0");
            for i in 0..n {
                s.push_str(&format!(" + A{i} * B{i}"));
            }
            s.push_str(";\nend.\n");
        }
        "param-list" => {
            s.push_str("procedure P(");
            for i in 0..n {
                if i > 0 {
                    s.push_str("; ");
                }
                s.push_str(&format!("const A{i}: Integer"));
            }
            s.push_str(");\nbegin\nend;\n");
        }
        "many-statements" => {
            s.push_str("begin\n");
            for i in 0..n {
                s.push_str(&format!("  Foo{i} := Bar{i}(A, B) + {i};\n"));
            }
            s.push_str("end.\n");
        }
        "anon-arg-calls" => {
            // the F12 shape: anonymous routine argument whose body holds n long call expressions
            s.push_str("begin\n  Run(procedure\n    begin\n");
            for i in 0..n {
                s.push_str(&format!("      Foo{i}(Aaaaaaaaaa(Bbbbbbbbbb, Cccccccccc(Dddddddd, Eeeeeeee)), Ffffffffff(Gggggggg, Hhhhhhhh(Iiiiiiii)));\n"));
            }
            s.push_str("    end);\nend.\n");
        }
        // chains of directly nested begin-less statements whose headers do not fit the line: every
        // level is the lone child line of the previous one and has several ways to be wrapped
        "nested-for-long-header" => {
            s.push_str("procedure P;\nbegin\n");
            for i in 0..n {
                s.push_str(&format!("  for var Index{i} := ComputeTheLowerBound(ArgumentNumberOne{i}, ArgumentNumberTwo{i}) to ComputeTheUpperBound(ArgumentNumberOne{i}, ArgumentNumberTwo{i}) do\n"));
            }
            s.push_str("  DoIt;\nend;\n");
        }
        "else-if-chain-long-cond" => {
            s.push_str("procedure P;\nbegin\n");
            for i in 0..n {
                s.push_str(if i == 0 { "  if " } else { "  else if " });
                s.push_str(&format!("(ConditionNumberOne{i} and ConditionNumberTwo{i}) or (ConditionNumberThree{i} and ConditionNumberFour{i}) or ConditionNumberFive{i} then\n    DoSomething({i})\n"));
            }
            s.push_str("  else\n    DoNothing;\nend;\n");
        }
        "nested-while-long-cond" => {
            s.push_str("procedure P;\nbegin\n");
            for i in 0..n {
                s.push_str(&format!("  while (ConditionNumberOne{i} and ConditionNumberTwo{i}) or (ConditionNumberThree{i} and ConditionNumberFour{i}) or ConditionNumberFive{i} or Six{i} do\n"));
            }
            s.push_str("  DoIt;\nend;\n");
        }
        "nested-if-long-cond" => {
            s.push_str("procedure P;\nbegin\n");
            for i in 0..n {
                s.push_str(&format!("  if SomeFunction{i}(ArgumentNumberOne{i}, ArgumentNumberTwo{i}, ArgumentNumberThree{i}) and AnotherFunction{i}(ArgumentNumberOne{i}, ArgumentNumberTwo{i}) then\n"));
            }
            s.push_str("  DoIt;\nend;\n");
        }
        "nested-with-on-long" => {
            s.push_str("procedure P;\nbegin\n  try\n    Foo;\n  except\n    on E: Exception do\n");
            for i in 0..n {
                s.push_str(&format!("  with SomeObject{i}.SomeProperty{i}.AnotherProperty{i}, AnotherObject{i}.SomeProperty{i}.YetAnotherProperty{i}.AndOneMore{i}, Third{i} do\n"));
            }
            s.push_str("  DoIt;\n  end;\nend;\n");
        }
        "nested-if-then" => {
            s.push_str("begin\n");
            for i in 0..n {
                s.push_str(&format!("if A{i} then\n"));
            }
            s.push_str("Foo;\nend.\n");
        }
        "nested-case" => {
            s.push_str("begin\n");
            for i in 0..n {
                s.push_str(&format!("case A{i} of 1:\n"));
            }
            s.push_str("Foo;\n");
            for _ in 0..n {
                s.push_str("end;\n");
            }
            s.push_str("end.\n");
        }
        "unterminated-parens" => {
            s.push_str("procedure P");
            for _ in 0..n {
                s.push_str("(A: B; ");
            }
        }
        "nested-if-expr-directive" => {
            s.push_str("begin\n");
            for _ in 0..n {
                s.push_str("{$IF (");
            }
            s.push('X');
            for _ in 0..n {
                s.push_str(")}\nFoo;\n");
            }
            for _ in 0..n {
                s.push_str("{$IFEND}\n");
            }
            s.push_str("end.\n");
        }
        "long-call-args" => {
            s.push_str("begin\n  Foo(");
            for i in 0..n {
                if i > 0 {
                    s.push_str(", ");
                }
                s.push_str(&format!("Arg{i}(X{i})"));
            }
            s.push_str(");\nend.\n");
        }
        "nested-generics" => {
            s.push_str("var X: ");
            for _ in 0..n {
                s.push_str("TList<");
            }
            s.push_str("Integer");
            for _ in 0..n {
                s.push('>');
            }
            s.push_str(";\n");
        }
        "class-members" => {
            s.push_str("type\n  TFoo = class\n  private\n");
            for i in 0..n {
                s.push_str(&format!("    FField{i}: Integer;\n    procedure Method{i}(A: Integer); virtual;\n    property Prop{i}: Integer read FField{i} write FField{i};\n"));
            }
            s.push_str("  end;\n");
        }
        _ => {}
    }
    s
}
