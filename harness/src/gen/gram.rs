//! G-gram: seeded, size-bounded generator of well-formed Delphi source as a *token list with
//! roles*. The program is well-formed by construction; the generator knows, without any
//! scanner, every token's lexeme and kind, where statements and declaration members start,
//! which block encloses them and which tokens open/close that block.

use crate::rng::Rng;

#[derive(Clone, Copy, Debug, PartialEq, Eq, Hash)]
pub enum GK {
    /// identifier (never a keyword-capable word)
    Ident,
    /// identifier spelled like an impure keyword (Index, Name, Read ...) used as identifier
    SoftIdent,
    /// `&begin` style escaped identifier
    AmpIdent,
    /// reserved word or directive used as keyword
    Keyword,
    Number,
    /// single-line text literal incl. `#13#10'x'` forms
    Str,
    /// multi-line text literal (content contains line breaks)
    MlStr,
    Op,
}

#[derive(Clone, Debug)]
pub struct GTok {
    pub text: String,
    pub kind: GK,
    /// first token of a statement / declaration member / section keyword / block closer:
    /// places where own-line decorations and blank lines may be put in front
    pub line_start: bool,
    /// canonical layout: no blank before this token
    pub tight_left: bool,
    /// canonical layout: no blank after this token
    pub tight_right: bool,
    /// canonical layout indentation depth if line_start
    pub depth: u16,
    /// a trailing end-of-line comment may be put after this token (end of a logical line)
    pub line_end: bool,
}

#[derive(Clone, Copy, Debug, PartialEq, Eq, Hash)]
pub enum BlockKind {
    /// begin..end compound statement that is the body of a control-flow statement
    CtrlBegin,
    /// begin..end that is itself a statement in a list, or a routine body
    PlainBegin,
    /// body of an anonymous routine
    AnonBegin,
    Repeat,
    Try,
    Except,
    Finally,
    CaseElse,
    /// const / var / type / resourcestring / threadvar section
    DeclSection,
    /// visibility section of a class or record
    Visibility,
    /// members of a class/record directly after the head (no visibility keyword)
    TypeBody,
    /// initialization / finalization
    UnitSection,
}

#[derive(Clone, Debug)]
pub struct Block {
    pub kind: BlockKind,
    /// token that opens the block (begin, repeat, try, except, finally, else, const, private, class ...)
    pub opener: usize,
    /// token that closes it (end, until, except, finally); None for declaration sections
    pub closer: Option<usize>,
    /// first tokens of the statements / members directly inside
    pub items: Vec<usize>,
    /// candidate anchor tokens, most specific first: the indentation reference is the physical
    /// line of the first candidate that is first on its line (the opener itself is tried before these)
    pub anchors: Vec<usize>,
}

#[derive(Clone, Debug, Default)]
pub struct Program {
    pub toks: Vec<GTok>,
    pub blocks: Vec<Block>,
    /// token ranges (first, last) of statements whose control-flow header (the condition of
    /// if/while/until/case, the bounds of for, the subject of with) contains an anonymous routine
    pub header_anon_stmts: Vec<(usize, usize)>,
    /// token ranges of `raise` statements whose expression contains an anonymous routine
    pub raise_anon_stmts: Vec<(usize, usize)>,
    /// features used (for evidence)
    pub features: Vec<&'static str>,
    pub max_depth: u16,
}

#[derive(Clone, Debug)]
pub struct GramOpts {
    /// rough budget of statements+members
    pub size: usize,
    pub allow_mlstr: bool,
    pub allow_anon: bool,
    pub allow_generics: bool,
    pub allow_nonascii: bool,
    pub allow_asm: bool,
    /// probability (0..100) that an expression is made long
    pub long_expr_pct: u32,
    pub max_expr_depth: u32,
    /// allow anonymous routines inside control-flow headers (legal, rare, poorly supported)
    pub anon_in_headers: bool,
    /// allow anonymous routines inside the expression of a raise statement
    pub anon_in_raise: bool,
    /// second-wave constructs: attributes, helpers, class operators, nested sections in classes,
    /// record/array constants, width specifiers, labels/goto, hint directives, exports ...
    pub extended: bool,
    /// statement selector (0..100, see `statement_inner`) forced for the first statement generated:
    /// lets a workload visit every statement kind equally often instead of by natural frequency
    pub force_first_stmt: Option<u32>,
}

impl Default for GramOpts {
    fn default() -> Self {
        GramOpts {
            size: 30,
            allow_mlstr: true,
            allow_anon: true,
            allow_generics: true,
            allow_nonascii: true,
            allow_asm: false,
            long_expr_pct: 15,
            max_expr_depth: 3,
            anon_in_headers: false,
            anon_in_raise: false,
            extended: false,
            force_first_stmt: None,
        }
    }
}

const IDENTS: &[&str] = &[
    "Foo", "Bar", "Baz", "Value", "Count", "Item", "Items", "Result", "Self", "I", "J", "K", "X", "Y", "Obj",
    "Buffer", "Len", "Total", "FList", "FValue", "Sender", "Stream", "Node", "Left", "Right", "Data",
    "AVeryLongIdentifierNameThatTakesSpace", "Tmp", "A", "B", "C", "Handle", "Size", "Width", "Height",
    "S", "P", "Q", "Idx", "Key", "Val", "Owner", "Parent", "Child", "List", "Dict", "Acc", "Flag",
];
const NONASCII_IDENTS: &[&str] = &["Größe", "Данные", "名前", "Übung", "naïve"];
/// words that lex as IdentifierOrKeyword and are commonly used as identifiers
const SOFT_IDENTS: &[&str] = &[
    "Index", "Name", "Read", "Write", "Default", "Message", "Stored", "Local", "Final", "Position0",
    "Absolute", "Register", "Export", "Platform", "Strict", "Helper", "Reference", "Out", "Operator", "Align",
];
const TYPE_NAMES: &[&str] = &[
    "Integer", "Boolean", "TObject", "TFoo", "TBar", "Double", "Cardinal", "Byte", "Char", "TStream",
    "TNotifyEvent", "Pointer", "Int64", "TBytes", "IInterface", "Exception", "TComponent", "Word",
];
const UNIT_NAMES: &[&str] = &["SysUtils", "Classes", "System.SysUtils", "System.Classes", "Vcl.Forms", "MyUnit", "Foo.Bar.Baz", "Winapi.Windows"];
const EXC_TYPES: &[&str] = &["Exception", "EFoo", "EInvalidOp", "EAbort", "EConvertError"];

pub struct Gen<'r> {
    rng: &'r mut Rng,
    o: GramOpts,
    p: Program,
    budget: isize,
    depth: u16,
    /// nesting of anonymous routines (bounded)
    anon_depth: u32,
    upper_keywords: u32,
    /// > 0 while generating a control-flow header expression
    in_header: u32,
    /// anonymous routines generated while in_header > 0
    header_anons: u32,
    /// labels declared by the routine being generated that `goto` may name
    labels: Vec<String>,
    /// `uses X in 'file'` allowed (program / library files)
    uses_in: bool,
}

type Anchors = Vec<usize>;

impl<'r> Gen<'r> {
    pub fn new(rng: &'r mut Rng, o: GramOpts) -> Self {
        let budget = o.size as isize;
        // keyword casing style of this program: 0 lower, 1 Capitalised, 2 UPPER, 3 mixed per keyword
        let upper_keywords = *rng.pick(&[0u32, 0, 0, 1, 2, 3]);
        Gen { rng, o, p: Program::default(), budget, depth: 0, anon_depth: 0, upper_keywords, in_header: 0, header_anons: 0, labels: vec![], uses_in: false }
    }

    fn feat(&mut self, f: &'static str) {
        if !self.p.features.contains(&f) {
            self.p.features.push(f);
        }
    }

    // ---------------------------------------------------------------- token emission
    fn push(&mut self, text: &str, kind: GK) -> usize {
        self.p.toks.push(GTok {
            text: text.to_string(),
            kind,
            line_start: false,
            tight_left: false,
            tight_right: false,
            depth: self.depth,
            line_end: false,
        });
        self.p.toks.len() - 1
    }
    fn kw(&mut self, word: &str) -> usize {
        let style = if self.upper_keywords == 3 { self.rng.below(3) as u32 } else { self.upper_keywords };
        let text = match style {
            0 => word.to_string(),
            1 => {
                let mut c = word.chars();
                match c.next() {
                    Some(f) => f.to_ascii_uppercase().to_string() + c.as_str(),
                    None => String::new(),
                }
            }
            _ => word.to_ascii_uppercase(),
        };
        self.push(&text, GK::Keyword)
    }
    fn op(&mut self, text: &str) -> usize {
        let i = self.push(text, GK::Op);
        let t = &mut self.p.toks[i];
        match text {
            ";" | "," | ")" | "]" => t.tight_left = true,
            "(" | "[" => t.tight_right = true,
            "." | "^" => {
                t.tight_left = true;
                t.tight_right = true;
            }
            "@" => t.tight_right = true,
            ".." => {
                t.tight_left = true;
                t.tight_right = true;
            }
            ":" => t.tight_left = true,
            _ => {}
        }
        i
    }
    /// `(` directly after a callee / `[` directly after an indexed thing
    fn op_tight(&mut self, text: &str) -> usize {
        let i = self.op(text);
        self.p.toks[i].tight_left = true;
        i
    }
    fn mark_line_start(&mut self, i: usize) {
        let d = self.depth;
        let t = &mut self.p.toks[i];
        t.line_start = true;
        t.depth = d;
        if d > self.p.max_depth {
            self.p.max_depth = d;
        }
    }
    fn mark_line_end(&mut self) {
        if let Some(t) = self.p.toks.last_mut() {
            t.line_end = true;
        }
    }
    fn semi(&mut self) {
        self.op(";");
        self.mark_line_end();
    }
    fn ident_tok(&mut self) -> usize {
        let r = self.rng.below(100);
        if r < 6 {
            let w = *self.rng.pick(SOFT_IDENTS);
            self.feat("soft-keyword-as-identifier");
            self.push(w, GK::SoftIdent)
        } else if r < 9 && self.o.allow_nonascii {
            let w = *self.rng.pick(NONASCII_IDENTS);
            self.feat("non-ascii-identifier");
            self.push(w, GK::Ident)
        } else if r < 11 {
            let w = *self.rng.pick(&["&begin", "&type", "&end", "&string", "&Foo"]);
            self.feat("ampersand-identifier");
            self.push(w, GK::AmpIdent)
        } else {
            let w = *self.rng.pick(IDENTS);
            self.push(w, GK::Ident)
        }
    }
    fn plain_ident(&mut self) -> usize {
        let w = *self.rng.pick(IDENTS);
        self.push(w, GK::Ident)
    }
    fn new_name(&mut self, prefix: &str) -> usize {
        let n = self.rng.below(1000);
        let w = format!("{prefix}{n}");
        self.push(&w, GK::Ident)
    }

    // ---------------------------------------------------------------- types
    fn type_ref(&mut self, depth: u32) {
        let r = self.rng.below(100);
        if r < 55 || depth > 1 {
            let w = *self.rng.pick(TYPE_NAMES);
            self.push(w, GK::Ident);
        } else if r < 63 {
            self.kw("string");
            if self.o.extended && depth == 0 && self.rng.chance(1, 4) {
                self.feat("short-string-type");
                self.op_tight("[");
                self.number_small();
                self.op("]");
            }
        } else if r < 65 && self.o.extended && depth == 0 {
            self.feat("file-type");
            self.kw("file");
            self.kw("of");
            let w = *self.rng.pick(TYPE_NAMES);
            self.push(w, GK::Ident);
        } else if r < 75 && self.o.allow_generics {
            self.feat("generic-type-ref");
            let w = *self.rng.pick(&["TList", "TDictionary", "TArray", "TFunc", "TObjectList"]);
            self.push(w, GK::Ident);
            let i = self.op("<");
            self.p.toks[i].tight_left = true;
            self.p.toks[i].tight_right = true;
            let n = self.rng.range(1, 2);
            for k in 0..n {
                if k > 0 {
                    self.op(",");
                }
                // type arguments are type identifiers
                self.type_ref(depth + 2);
            }
            let i = self.op(">");
            self.p.toks[i].tight_left = true;
        } else if r < 82 {
            self.feat("array-type");
            self.kw("array");
            if self.rng.bool() {
                self.op("[");
                self.number_small();
                self.op("..");
                self.number_small();
                self.op("]");
            }
            self.kw("of");
            self.type_ref(depth + 1);
        } else if r < 88 {
            self.feat("qualified-type");
            self.push("System", GK::Ident);
            self.op(".");
            let w = *self.rng.pick(TYPE_NAMES);
            self.push(w, GK::Ident);
        } else if r < 93 {
            self.feat("pointer-type");
            let i = self.op("^");
            self.p.toks[i].tight_left = false;
            let w = *self.rng.pick(TYPE_NAMES);
            self.push(w, GK::Ident);
        } else {
            self.feat("set-type");
            self.kw("set");
            self.kw("of");
            let w = *self.rng.pick(&["Byte", "Char", "TEnum", "TOption"]);
            self.push(w, GK::Ident);
        }
    }

    /// a type *identifier* (what Delphi requires for parameter and result types)
    fn type_ident(&mut self, allow_open_array: bool) {
        let r = self.rng.below(100);
        if allow_open_array && r < 8 {
            self.feat("open-array-parameter");
            self.kw("array");
            self.kw("of");
            if self.rng.chance(1, 4) {
                self.kw("const");
            } else {
                let w = *self.rng.pick(TYPE_NAMES);
                self.push(w, GK::Ident);
            }
        } else if r < 60 {
            let w = *self.rng.pick(TYPE_NAMES);
            self.push(w, GK::Ident);
        } else if r < 70 {
            self.kw("string");
        } else if r < 85 && self.o.allow_generics {
            self.feat("generic-type-ref");
            let w = *self.rng.pick(&["TList", "TDictionary", "TArray", "TFunc", "TObjectList"]);
            self.push(w, GK::Ident);
            let i = self.op("<");
            self.p.toks[i].tight_left = true;
            self.p.toks[i].tight_right = true;
            let w = *self.rng.pick(TYPE_NAMES);
            self.push(w, GK::Ident);
            if self.rng.chance(1, 3) {
                self.op(",");
                self.kw("string");
            }
            let i = self.op(">");
            self.p.toks[i].tight_left = true;
        } else {
            self.feat("qualified-type");
            self.push("System", GK::Ident);
            self.op(".");
            let w = *self.rng.pick(TYPE_NAMES);
            self.push(w, GK::Ident);
        }
    }

    // ---------------------------------------------------------------- literals
    fn number_small(&mut self) {
        let n = self.rng.below(200);
        self.push(&n.to_string(), GK::Number);
    }
    fn number(&mut self) {
        let r = self.rng.below(100);
        let s = if r < 55 {
            self.rng.below(100000).to_string()
        } else if r < 68 {
            self.feat("hex-literal");
            format!("${:X}", self.rng.below(0xFFFFFF))
        } else if r < 80 {
            self.feat("float-literal");
            format!("{}.{}", self.rng.below(1000), self.rng.below(1000))
        } else if r < 88 {
            self.feat("exponent-literal");
            format!("{}.{}e{}{}", self.rng.below(10), self.rng.below(100), if self.rng.bool() { "-" } else { "+" }, self.rng.below(30))
        } else if r < 93 {
            self.feat("binary-literal");
            format!("%{:b}", self.rng.below(1024))
        } else if r < 97 {
            self.feat("digit-separator");
            format!("{}_{:03}", self.rng.range(1, 999), self.rng.below(1000))
        } else {
            format!("{}E{}", self.rng.range(1, 9), self.rng.below(20))
        };
        self.push(&s, GK::Number);
    }
    fn string_lit(&mut self) {
        let r = self.rng.below(100);
        const WORDS: &[&str] = &["hello", "world", "a b c", "%s: %d", "", "x", "it''s", "// not a comment", "{ nor this }", "(* nor *)", "Ünïcödé ✓", "  padded  ", "begin end", "'' ''"];
        let s = if r < 70 {
            format!("'{}'", self.rng.pick(WORDS))
        } else if r < 80 {
            self.feat("char-code-literal");
            format!("#{}#{}", self.rng.below(256), self.rng.below(256))
        } else if r < 90 {
            self.feat("mixed-char-string-literal");
            format!("'{}'#13#10'{}'", self.rng.pick(WORDS), self.rng.pick(WORDS))
        } else if r < 95 {
            self.feat("hex-char-code");
            format!("#${:X}'{}'", self.rng.below(256), self.rng.pick(WORDS))
        } else {
            let n = self.rng.range(20, 70);
            let mut s = String::from("'");
            for _ in 0..n {
                s.push(*self.rng.pick(&['a', 'b', ' ', 'x', '1', '-', '_', 'Z']));
            }
            s.push('\'');
            s
        };
        self.push(&s, GK::Str);
    }
    /// conforming multi-line literal; the interior is indented by `depth`-independent text because
    /// the layout re-indents the whole token consistently (see layout.rs)
    fn mlstring_lit(&mut self) {
        self.feat("multiline-string");
        let quotes = if self.rng.chance(1, 6) { "'''''" } else { "'''" };
        let n = self.rng.range(1, 4);
        let mut lines = vec![];
        const L: &[&str] = &["some text", "", "  indented more", "select * from t", "it's 'quoted'", "x", "tab\there", "trailing  ", "   ", "\t", "\u{a0}", "\u{2003} "];
        for _ in 0..n {
            lines.push(self.rng.pick(L).to_string());
        }
        // MLSTR marker: the layout module renders `\u{1}` as the literal's line break + base indentation
        let mut s = String::from(quotes);
        for l in &lines {
            s.push('\u{1}');
            s.push_str(l);
        }
        s.push('\u{1}');
        s.push_str(quotes);
        self.push(&s, GK::MlStr);
    }

    // ---------------------------------------------------------------- expressions
    fn expr(&mut self, d: u32) {
        if self.rng.chance(self.o.long_expr_pct, 100) && d == 0 {
            // long chain to force wrapping
            let n = self.rng.range(3, 8);
            self.feat("long-operator-chain");
            self.rel_expr(d + 1);
            for _ in 0..n {
                let w = *self.rng.pick(&["+", "-", "and", "or", "*", "+", "+"]);
                self.binop(w);
                self.rel_expr(d + 1);
            }
            return;
        }
        self.rel_expr(d);
    }
    fn binop(&mut self, w: &str) {
        if w.chars().next().unwrap().is_ascii_alphabetic() {
            self.kw(w);
        } else {
            self.op(w);
        }
    }
    fn rel_expr(&mut self, d: u32) {
        self.add_expr(d);
        if d < self.o.max_expr_depth && self.rng.chance(1, 5) {
            let w = *self.rng.pick(&["=", "<>", "<", ">", "<=", ">=", "in", "is", "as"]);
            match w {
                "in" => {
                    self.feat("in-operator");
                    self.kw("in");
                    self.set_lit(d + 1);
                }
                "is" | "as" => {
                    self.feat("is-as-operator");
                    self.kw(w);
                    let t = *self.rng.pick(TYPE_NAMES);
                    self.push(t, GK::Ident);
                }
                _ => {
                    if w == "<" || w == ">" {
                        self.feat("chevron-comparison");
                    }
                    self.op(w);
                    self.add_expr(d + 1);
                }
            }
        }
    }
    fn add_expr(&mut self, d: u32) {
        self.mul_expr(d);
        let mut n = 0;
        while d < self.o.max_expr_depth && n < 3 && self.rng.chance(1, 4) {
            let w = *self.rng.pick(&["+", "-", "or", "xor", "+"]);
            self.binop(w);
            self.mul_expr(d + 1);
            n += 1;
        }
    }
    fn mul_expr(&mut self, d: u32) {
        self.unary(d);
        let mut n = 0;
        while d < self.o.max_expr_depth && n < 2 && self.rng.chance(1, 6) {
            let w = *self.rng.pick(&["*", "/", "div", "mod", "and", "shl", "shr"]);
            self.binop(w);
            self.unary(d + 1);
            n += 1;
        }
    }
    fn unary(&mut self, d: u32) {
        let r = self.rng.below(100);
        if r < 5 {
            self.feat("not-operator");
            self.kw("not");
            self.unary(d + 1);
        } else if r < 9 {
            self.feat("unary-minus");
            let i = self.op("-");
            self.p.toks[i].tight_right = true;
            self.primary(d + 1);
        } else if r < 11 {
            self.feat("address-of");
            self.op("@");
            self.designator(d + 1);
        } else {
            self.primary(d);
        }
    }
    fn set_lit(&mut self, d: u32) {
        self.feat("set-literal");
        self.op("[");
        let n = self.rng.below(4);
        for k in 0..n {
            if k > 0 {
                self.op(",");
            }
            if self.rng.chance(1, 3) {
                self.number_small();
                self.op("..");
                self.number_small();
            } else if self.rng.bool() {
                self.number_small();
            } else {
                self.designator(d + 1);
            }
        }
        self.op("]");
    }
    fn args(&mut self, d: u32, allow_anon: bool) {
        self.op_tight("(");
        let n = if d >= self.o.max_expr_depth { self.rng.below(2) } else { self.rng.below(4) };
        if self.rng.chance(1, 40) {
            // two comparisons in neighbouring arguments that could be read as a generic argument list:
            //   Foo(X < Y, U > -V)   Foo(X < Y, U > (V))   Foo(X < Y, U > V)
            self.feat("ambiguous-generic-or-comparison");
            self.plain_ident();
            self.op("<");
            self.plain_ident();
            self.op(",");
            self.plain_ident();
            self.op(">");
            match self.rng.below(5) {
                0 => {
                    let i = self.op("-");
                    self.p.toks[i].tight_right = true;
                    self.number_small();
                }
                1 => {
                    let i = self.op("+");
                    self.p.toks[i].tight_right = true;
                    self.plain_ident();
                }
                2 => {
                    self.op("(");
                    self.plain_ident();
                    self.op(")");
                }
                3 => {
                    self.kw("not");
                    self.plain_ident();
                }
                _ => {
                    self.plain_ident();
                }
            }
            self.op(")");
            return;
        }
        for k in 0..n {
            if k > 0 {
                self.op(",");
            }
            if allow_anon && self.o.allow_anon && self.anon_depth < 2 && self.budget > 3 && (self.in_header == 0 || self.o.anon_in_headers) && self.rng.chance(1, 10) {
                self.anon_routine(d + 1);
            } else {
                self.expr(d + 1);
            }
        }
        self.op(")");
    }
    fn designator(&mut self, d: u32) {
        self.ident_tok();
        let mut n = 0;
        while n < 3 && self.rng.chance(1, 3) {
            n += 1;
            match self.rng.below(10) {
                0..=4 => {
                    self.op(".");
                    // after a dot every word is an identifier, even reserved ones such as `Create`
                    if self.rng.chance(1, 8) {
                        let w = *self.rng.pick(&["Create", "Free", "ToString", "Name", "Index", "Read", "Count", "Items", "asm", "Asm", "type", "&asm"]);
                        self.push(w, if SOFT_IDENTS.contains(&w) { GK::SoftIdent } else { GK::Ident });
                    } else {
                        self.plain_ident();
                    }
                }
                5..=6 if d < self.o.max_expr_depth => {
                    self.feat("indexer");
                    self.op_tight("[");
                    self.expr(d + 1);
                    if self.rng.chance(1, 5) {
                        self.op(",");
                        self.expr(d + 1);
                    }
                    self.op("]");
                }
                7 => {
                    self.feat("deref");
                    self.op("^");
                }
                8..=9 if d < self.o.max_expr_depth => {
                    self.args(d + 1, true);
                }
                _ => {}
            }
        }
    }
    fn primary(&mut self, d: u32) {
        let r = self.rng.below(100);
        if d >= self.o.max_expr_depth {
            match r % 4 {
                0 => self.number(),
                1 => self.string_lit(),
                _ => {
                    self.ident_tok();
                }
            }
            return;
        }
        match r {
            0..=34 => self.designator(d),
            35..=49 => self.number(),
            50..=59 => self.string_lit(),
            60..=66 => {
                self.feat("parenthesised-expr");
                self.op("(");
                self.expr(d + 1);
                self.op(")");
            }
            67..=76 => {
                self.feat("call");
                self.designator(d + 1);
                self.args(d + 1, true);
            }
            77..=79 => {
                self.kw("nil");
            }
            80..=82 => self.set_lit(d),
            83..=85 => {
                self.feat("cast");
                let t = *self.rng.pick(&["Integer", "TObject", "Cardinal", "PChar", "string"]);
                if t == "string" {
                    self.kw("string");
                } else {
                    self.push(t, GK::Ident);
                }
                self.op_tight("(");
                self.expr(d + 1);
                self.op(")");
            }
            86..=88 if self.o.allow_generics => {
                self.feat("generic-call");
                let w = *self.rng.pick(&["TList", "TFoo", "TDictionary", "Max"]);
                self.push(w, GK::Ident);
                let i = self.op("<");
                self.p.toks[i].tight_left = true;
                self.p.toks[i].tight_right = true;
                self.type_ref(2);
                if self.rng.chance(1, 3) {
                    self.op(",");
                    self.type_ref(2);
                }
                let i = self.op(">");
                self.p.toks[i].tight_left = true;
                if self.rng.bool() {
                    self.op(".");
                    self.push("Create", GK::Ident);
                }
                self.args(d + 1, false);
            }
            89..=90 => {
                self.feat("inherited-expr");
                self.kw("inherited");
                self.plain_ident();
                self.args(d + 1, false);
            }
            91..=93 if self.o.allow_mlstr && d <= 1 => self.mlstring_lit(),
            94..=95 => {
                self.feat("bool-literal");
                let w = *self.rng.pick(&["True", "False"]);
                self.push(w, GK::Ident);
            }
            _ => self.designator(d),
        }
    }

    // ---------------------------------------------------------------- anonymous routines
    fn anon_routine(&mut self, _d: u32) {
        self.feat("anonymous-routine");
        self.anon_depth += 1;
        if self.in_header > 0 {
            self.header_anons += 1;
            self.feat("anonymous-routine-in-control-header-or-raise");
        }
        let saved_in_header = std::mem::replace(&mut self.in_header, 0);
        let is_func = self.rng.chance(1, 3);
        let kwi = self.kw(if is_func { "function" } else { "procedure" });
        if self.rng.chance(1, 2) {
            self.param_list();
        }
        if is_func {
            self.op(":");
            self.type_ident(false);
        }
        let saved_depth = self.depth;
        // local var section sometimes
        if self.rng.chance(1, 6) {
            self.feat("anonymous-routine-var-section");
            let v = self.kw("var");
            self.depth += 1;
            self.plain_ident();
            self.op(":");
            self.type_ident(false);
            self.semi();
            self.depth -= 1;
            let _ = v;
        }
        let n = if self.rng.chance(1, 4) { 1 } else { self.rng.range(0, 3) };
        self.begin_end_block(BlockKind::AnonBegin, vec![kwi], n);
        self.depth = saved_depth;
        self.anon_depth -= 1;
        self.in_header = saved_in_header;
    }

    fn param_list(&mut self) {
        self.op_tight("(");
        let n = self.rng.range(0, 3);
        for k in 0..n {
            if k > 0 {
                self.op(";");
            }
            let attr_first = self.o.extended && self.rng.chance(1, 12);
            if attr_first {
                self.feat("parameter-attribute");
                self.op("[");
                self.push("Ref", GK::Ident);
                self.op("]");
            }
            match self.rng.below(6) {
                0 => {
                    self.kw("const");
                    if self.o.extended && !attr_first && self.rng.chance(1, 8) {
                        self.feat("parameter-attribute");
                        self.op("[");
                        self.push("Ref", GK::Ident);
                        self.op("]");
                    }
                }
                1 => {
                    self.kw("var");
                }
                2 => {
                    self.kw("out");
                }
                _ => {}
            }
            self.plain_ident();
            if self.rng.chance(1, 4) {
                self.op(",");
                self.plain_ident();
            }
            self.op(":");
            self.type_ident(true);
            if k == n - 1 && self.rng.chance(1, 5) {
                self.feat("default-parameter");
                self.op("=");
                self.number_small();
            }
        }
        self.op(")");
    }

    // ---------------------------------------------------------------- statements
    /// generate a control-flow header expression; true if it contains an anonymous routine
    fn header(&mut self, f: impl FnOnce(&mut Self)) -> bool {
        let before = self.header_anons;
        self.in_header += 1;
        f(self);
        self.in_header -= 1;
        self.header_anons != before
    }

    /// begin <n statements> end   (end is not followed by anything here)
    fn begin_end_block(&mut self, kind: BlockKind, anchors: Anchors, n: usize) -> (usize, usize) {
        let b = self.kw("begin");
        self.mark_line_end();
        let bi = self.p.blocks.len();
        self.p.blocks.push(Block { kind, opener: b, closer: None, items: vec![], anchors });
        self.depth += 1;
        for _ in 0..n {
            let s = self.statement(true);
            self.p.blocks[bi].items.push(s);
        }
        self.depth -= 1;
        let e = self.kw("end");
        self.mark_line_start(e);
        self.p.blocks[bi].closer = Some(e);
        (b, e)
    }

    /// a statement used as the body of then/do/else/case-arm: either a begin..end block or a
    /// single simple/structured statement. `anchors`: candidates for the controlling line.
    /// returns true if the body is a begin..end block (only then may an `else` follow without
    /// the dangling-else ambiguity)
    fn body(&mut self, anchors: Anchors) -> bool {
        self.budget -= 1;
        if self.rng.chance(3, 5) {
            let n = if self.budget <= 0 { self.rng.below(2) } else { self.rng.range(0, 3) };
            self.begin_end_block(BlockKind::CtrlBegin, anchors, n);
            true
        } else {
            // single statement body, one level deeper in canonical layout
            self.depth += 1;
            let s = self.statement_inner(false, anchors);
            self.mark_line_start(s);
            self.depth -= 1;
            false
        }
    }

    /// emits one statement followed by `;` when `in_list`. Returns index of its first token.
    fn statement(&mut self, in_list: bool) -> usize {
        let s = self.statement_inner(in_list, vec![]);
        self.mark_line_start(s);
        s
    }

    fn statement_inner(&mut self, in_list: bool, outer_anchors: Anchors) -> usize {
        self.budget -= 1;
        let first = self.p.toks.len();
        let mut own_header_anon = false;
        let simple_only = self.budget <= 0 || self.depth > 7;
        let drawn = if simple_only { self.rng.below(45) } else { self.rng.below(100) };
        let r = match self.o.force_first_stmt.take() {
            Some(f) if !simple_only || f < 45 => f as usize,
            _ => drawn,
        };
        let with_anchor = |me: usize| {
            let mut a = vec![me];
            a.extend(outer_anchors.iter().copied());
            a
        };
        match r {
            0..=19 => {
                self.feat("assignment");
                self.designator(1);
                self.op(":=");
                if self.o.allow_anon && self.anon_depth < 2 && !simple_only && self.rng.chance(1, 12) {
                    self.anon_routine(0);
                } else {
                    self.expr(0);
                }
            }
            20..=34 => {
                self.feat("call-statement");
                if self.o.extended && self.rng.chance(1, 15) {
                    // WriteLn(A:5, B:8:2) / Str(V:8:2, S)
                    self.feat("width-specifier");
                    let str_form = self.rng.chance(1, 3);
                    let w = if str_form { "Str" } else { *self.rng.pick(&["WriteLn", "Write"]) };
                    self.push(w, GK::Ident);
                    self.op_tight("(");
                    let n = if str_form { 1 } else { self.rng.range(1, 3) };
                    for k in 0..n {
                        if k > 0 {
                            self.op(",");
                        }
                        self.add_expr(2);
                        if str_form || self.rng.chance(2, 3) {
                            self.op(":");
                            self.number_small();
                            if self.rng.bool() {
                                self.op(":");
                                self.number_small();
                            }
                        }
                    }
                    if str_form {
                        self.op(",");
                        self.plain_ident();
                    }
                    self.op(")");
                } else {
                    self.designator(1);
                    if self.rng.chance(4, 5) {
                        self.args(0, true);
                    }
                }
            }
            35..=37 => {
                if !self.labels.is_empty() && self.anon_depth == 0 && self.rng.chance(1, 2) {
                    self.feat("goto");
                    self.kw("goto");
                    let l = self.rng.pick(&self.labels).clone();
                    self.push(&l, GK::Ident);
                } else {
                    self.feat("exit-break-continue");
                    let w = *self.rng.pick(&["Exit", "Break", "Continue", "Exit"]);
                    self.push(w, GK::Ident);
                    if w == "Exit" && self.rng.chance(1, 3) {
                        self.op_tight("(");
                        self.expr(1);
                        self.op(")");
                    }
                }
            }
            38..=40 => {
                self.feat("raise");
                self.kw("raise");
                if self.rng.chance(4, 5) {
                    let t = *self.rng.pick(EXC_TYPES);
                    self.push(t, GK::Ident);
                    self.op(".");
                    self.push("Create", GK::Ident);
                    self.op_tight("(");
                    let saved = std::mem::replace(&mut self.o.anon_in_headers, self.o.anon_in_raise);
                    let with_set = self.rng.chance(1, 3);
                    let has_anon = self.header(|g| {
                        g.expr(1);
                        if with_set {
                            g.op(",");
                            g.set_lit(2);
                        }
                    });
                    self.o.anon_in_headers = saved;
                    self.op(")");
                    if has_anon {
                        self.p.raise_anon_stmts.push((first, self.p.toks.len() - 1));
                    }
                    if !has_anon && self.o.extended && self.rng.chance(1, 6) {
                        self.feat("raise-at");
                        self.kw("at");
                        if self.rng.bool() {
                            self.push("ReturnAddress", GK::Ident);
                        } else {
                            self.op("@");
                            self.push("DoIt", GK::Ident);
                        }
                    }
                }
            }
            41..=42 => {
                self.feat("inherited-statement");
                self.kw("inherited");
                if self.rng.bool() {
                    self.plain_ident();
                    if self.rng.bool() {
                        self.args(1, false);
                    }
                }
            }
            43..=44 => {
                if self.o.extended && self.rng.chance(1, 3) {
                    self.feat("inline-const");
                    self.kw("const");
                    self.plain_ident();
                    if self.rng.chance(1, 3) {
                        self.op(":");
                        self.type_ident(false);
                    }
                    self.op("=");
                    self.expr(1);
                } else {
                    self.feat("inline-var");
                    self.kw("var");
                    self.plain_ident();
                    if self.rng.bool() {
                        self.op(":");
                        self.type_ident(false);
                    }
                    if self.rng.chance(2, 3) {
                        self.op(":=");
                        self.expr(0);
                    }
                }
            }
            45..=59 => {
                self.feat("if");
                let me = self.kw("if");
                own_header_anon |= self.header(|g| g.expr(0));
                let _then = self.kw("then");
                self.mark_line_end();
                let anch = with_anchor(me);
                let mut closed = self.body(anch);
                // else chain (only after a begin..end body: `if a then if b then x else y` would bind
                // the else to the inner if)
                let mut chain = 0;
                while closed && self.rng.chance(2, 5) && chain < 3 {
                    chain += 1;
                    let el = self.kw("else");
                    self.mark_line_start(el);
                    if self.rng.chance(1, 3) {
                        self.feat("else-if-chain");
                        // else if ... then body ; the nested if's blocks are anchored at `else`
                        let inner_if = self.kw("if");
                        own_header_anon |= self.header(|g| g.expr(0));
                        self.kw("then");
                        self.mark_line_end();
                        closed = self.body(vec![inner_if, el]);
                    } else {
                        self.mark_line_end();
                        self.body(vec![el]);
                        break;
                    }
                }
            }
            60..=65 => {
                self.feat("for-to");
                let me = self.kw("for");
                if self.rng.chance(1, 5) {
                    self.feat("for-inline-var");
                    self.kw("var");
                }
                self.plain_ident();
                self.op(":=");
                own_header_anon |= self.header(|g| g.expr(1));
                let w = *self.rng.pick(&["to", "downto"]);
                self.kw(w);
                own_header_anon |= self.header(|g| g.expr(1));
                self.kw("do");
                self.mark_line_end();
                let anch = with_anchor(me);
                self.body(anch);
            }
            66..=69 => {
                self.feat("for-in");
                let me = self.kw("for");
                if self.rng.chance(1, 4) {
                    self.kw("var");
                }
                self.plain_ident();
                self.kw("in");
                own_header_anon |= self.header(|g| g.designator(1));
                self.kw("do");
                self.mark_line_end();
                let anch = with_anchor(me);
                self.body(anch);
            }
            70..=74 => {
                self.feat("while");
                let me = self.kw("while");
                own_header_anon |= self.header(|g| g.expr(0));
                self.kw("do");
                self.mark_line_end();
                let anch = with_anchor(me);
                self.body(anch);
            }
            75..=77 => {
                self.feat("with");
                let me = self.kw("with");
                own_header_anon |= self.header(|g| g.designator(1));
                if self.rng.chance(1, 4) {
                    self.op(",");
                    own_header_anon |= self.header(|g| g.designator(1));
                }
                self.kw("do");
                self.mark_line_end();
                let anch = with_anchor(me);
                self.body(anch);
            }
            78..=81 => {
                self.feat("repeat");
                let me = self.kw("repeat");
                self.mark_line_end();
                let bi = self.p.blocks.len();
                self.p.blocks.push(Block { kind: BlockKind::Repeat, opener: me, closer: None, items: vec![], anchors: with_anchor(me) });
                self.depth += 1;
                let n = self.rng.range(0, 3);
                for _ in 0..n {
                    let s = self.statement(true);
                    self.p.blocks[bi].items.push(s);
                }
                self.depth -= 1;
                let u = self.kw("until");
                self.mark_line_start(u);
                self.p.blocks[bi].closer = Some(u);
                own_header_anon |= self.header(|g| g.expr(0));
            }
            82..=88 => {
                let me = self.kw("try");
                self.mark_line_end();
                let bi = self.p.blocks.len();
                self.p.blocks.push(Block { kind: BlockKind::Try, opener: me, closer: None, items: vec![], anchors: with_anchor(me) });
                self.depth += 1;
                let n = self.rng.range(1, 3);
                for _ in 0..n {
                    let s = self.statement(true);
                    self.p.blocks[bi].items.push(s);
                }
                self.depth -= 1;
                if self.rng.bool() {
                    self.feat("try-finally");
                    let f = self.kw("finally");
                    self.mark_line_start(f);
                    self.mark_line_end();
                    self.p.blocks[bi].closer = Some(f);
                    let bj = self.p.blocks.len();
                    self.p.blocks.push(Block { kind: BlockKind::Finally, opener: f, closer: None, items: vec![], anchors: vec![f] });
                    self.depth += 1;
                    let n = self.rng.range(1, 2);
                    for _ in 0..n {
                        let s = self.statement(true);
                        self.p.blocks[bj].items.push(s);
                    }
                    self.depth -= 1;
                    let e = self.kw("end");
                    self.mark_line_start(e);
                    self.p.blocks[bj].closer = Some(e);
                } else {
                    self.feat("try-except");
                    let mut except_closed = false;
                    let x = self.kw("except");
                    self.mark_line_start(x);
                    self.mark_line_end();
                    self.p.blocks[bi].closer = Some(x);
                    let bj = self.p.blocks.len();
                    self.p.blocks.push(Block { kind: BlockKind::Except, opener: x, closer: None, items: vec![], anchors: vec![x] });
                    self.depth += 1;
                    if self.rng.bool() {
                        self.feat("on-handlers");
                        let n = self.rng.range(1, 2);
                        for _ in 0..n {
                            let on = self.kw("on");
                            self.mark_line_start(on);
                            self.p.blocks[bj].items.push(on);
                            if self.rng.bool() {
                                self.push("E", GK::Ident);
                                self.op(":");
                            }
                            let t = *self.rng.pick(EXC_TYPES);
                            self.push(t, GK::Ident);
                            self.kw("do");
                            self.mark_line_end();
                            self.body(vec![on]);
                            self.semi();
                        }
                        if self.o.extended && self.rng.chance(1, 4) {
                            self.feat("except-else");
                            self.depth -= 1;
                            let el = self.kw("else");
                            self.mark_line_start(el);
                            self.mark_line_end();
                            self.p.blocks[bj].closer = Some(el);
                            let bk = self.p.blocks.len();
                            self.p.blocks.push(Block { kind: BlockKind::CaseElse, opener: el, closer: None, items: vec![], anchors: vec![el] });
                            self.depth += 1;
                            let n = self.rng.range(1, 2);
                            for _ in 0..n {
                                let s = self.statement(true);
                                self.p.blocks[bk].items.push(s);
                            }
                            self.depth -= 1;
                            let e = self.kw("end");
                            self.mark_line_start(e);
                            self.p.blocks[bk].closer = Some(e);
                            self.depth += 1;
                            except_closed = true;
                        }
                    } else {
                        let n = self.rng.range(0, 2);
                        for _ in 0..n {
                            let s = self.statement(true);
                            self.p.blocks[bj].items.push(s);
                        }
                    }
                    self.depth -= 1;
                    if !except_closed {
                        let e = self.kw("end");
                        self.mark_line_start(e);
                        self.p.blocks[bj].closer = Some(e);
                    }
                }
            }
            89..=93 => {
                self.feat("case");
                let me = self.kw("case");
                own_header_anon |= self.header(|g| g.designator(1));
                self.kw("of");
                self.mark_line_end();
                self.depth += 1;
                let n = self.rng.range(1, 4);
                for _ in 0..n {
                    let lab = self.p.toks.len();
                    let long_labels = self.rng.chance(1, 4);
                    let m = if long_labels { self.rng.range(2, 4) } else { self.rng.range(1, 3) };
                    for k in 0..m {
                        if k > 0 {
                            self.op(",");
                        }
                        if long_labels {
                            // enumeration-style labels: the arm header is long enough to need wrapping
                            let w = *self.rng.pick(&["LabelAlpha", "LabelBravo", "LabelCharlie", "kDelta", "EnumValueEcho", "fkFoxtrotGolf"]);
                            self.push(w, GK::Ident);
                        } else if self.rng.chance(1, 4) {
                            self.number_small();
                            self.op("..");
                            self.number_small();
                        } else if self.rng.chance(1, 3) {
                            self.plain_ident();
                        } else {
                            self.number_small();
                        }
                    }
                    self.mark_line_start(lab);
                    self.op(":");
                    // arm body: canonical layout keeps simple bodies inline
                    if self.rng.chance(2, 5) {
                        let nn = self.rng.range(0, 2);
                        self.begin_end_block(BlockKind::CtrlBegin, vec![lab], nn);
                    } else {
                        self.statement_inner(false, vec![lab]);
                    }
                    self.semi();
                }
                self.depth -= 1;
                let mut closer_anchor = vec![me];
                closer_anchor.extend(outer_anchors.iter().copied());
                if self.rng.chance(2, 5) {
                    self.feat("case-else");
                    let el = self.kw("else");
                    self.mark_line_start(el);
                    self.mark_line_end();
                    let bj = self.p.blocks.len();
                    self.p.blocks.push(Block { kind: BlockKind::CaseElse, opener: el, closer: None, items: vec![], anchors: vec![el] });
                    self.depth += 1;
                    let nn = self.rng.range(1, 2);
                    for _ in 0..nn {
                        let s = self.statement(true);
                        self.p.blocks[bj].items.push(s);
                    }
                    self.depth -= 1;
                    let e = self.kw("end");
                    self.mark_line_start(e);
                    self.p.blocks[bj].closer = Some(e);
                } else {
                    let e = self.kw("end");
                    self.mark_line_start(e);
                }
                let _ = closer_anchor;
            }
            _ => {
                self.feat("nested-begin-end");
                let n = self.rng.range(0, 3);
                let me = self.p.toks.len();
                self.begin_end_block(BlockKind::PlainBegin, with_anchor(me), n);
            }
        }
        if in_list {
            self.semi();
        }
        if own_header_anon {
            self.p.header_anon_stmts.push((first, self.p.toks.len() - 1));
        }
        first
    }

    // ---------------------------------------------------------------- declarations
    fn const_section(&mut self) {
        self.feat("const-section");
        let w = if self.rng.chance(1, 6) { "resourcestring" } else { "const" };
        let k = self.kw(w);
        self.mark_line_start(k);
        self.mark_line_end();
        let bi = self.p.blocks.len();
        self.p.blocks.push(Block { kind: BlockKind::DeclSection, opener: k, closer: None, items: vec![], anchors: vec![k] });
        self.depth += 1;
        let n = self.rng.range(1, 4);
        for _ in 0..n {
            self.budget -= 1;
            let m = self.new_name("C");
            self.mark_line_start(m);
            self.p.blocks[bi].items.push(m);
            if w == "const" && self.o.extended && self.rng.chance(1, 5) {
                self.structured_const();
                self.semi();
                continue;
            }
            if w == "const" && self.o.extended && self.rng.chance(1, 8) {
                // a bare literal followed by a portability directive: `C = $FF deprecated;`
                self.op("=");
                if self.rng.chance(1, 4) {
                    self.string_lit();
                } else {
                    self.number();
                }
                self.hint_directive();
                if self.rng.chance(1, 4) {
                    self.hint_directive();
                }
                self.semi();
                continue;
            }
            if w == "const" && self.rng.chance(1, 3) {
                self.feat("typed-const");
                self.op(":");
                self.type_ref(1);
            }
            self.op("=");
            if w == "resourcestring" {
                self.string_lit();
            } else {
                self.expr(1);
            }
            if self.o.extended && self.rng.chance(1, 12) {
                self.hint_directive();
            }
            self.semi();
        }
        self.depth -= 1;
    }
    /// `: TPoint = (X: 0; Y: 0)`, `: array[0..1] of TPoint = ((X: 0; Y: 0), (X: 1; Y: 1))`,
    /// `: array[0..2] of Integer = (1, 2, 3)` after the constant's name
    fn structured_const(&mut self) {
        self.op(":");
        match self.rng.below(3) {
            0 => {
                self.feat("record-const");
                self.push("TPoint", GK::Ident);
                self.op("=");
                self.record_const_value();
            }
            1 => {
                self.feat("array-of-record-const");
                let n = self.rng.range(1, 3);
                self.kw("array");
                self.op("[");
                self.push("0", GK::Number);
                self.op("..");
                self.push(&(n - 1).to_string(), GK::Number);
                self.op("]");
                self.kw("of");
                self.push("TPoint", GK::Ident);
                self.op("=");
                self.op("(");
                for k in 0..n {
                    if k > 0 {
                        self.op(",");
                    }
                    self.record_const_value();
                }
                self.op(")");
            }
            _ => {
                self.feat("array-const");
                let n = self.rng.range(1, 6);
                self.kw("array");
                self.op("[");
                self.push("0", GK::Number);
                self.op("..");
                self.push(&(n - 1).to_string(), GK::Number);
                self.op("]");
                self.kw("of");
                let strs = self.rng.chance(1, 3);
                if strs {
                    self.kw("string");
                } else {
                    self.push("Integer", GK::Ident);
                }
                self.op("=");
                self.op("(");
                for k in 0..n {
                    if k > 0 {
                        self.op(",");
                    }
                    if strs {
                        self.string_lit();
                    } else if self.rng.chance(1, 4) {
                        let i = self.op("-");
                        self.p.toks[i].tight_right = true;
                        self.number_small();
                    } else {
                        self.number();
                    }
                }
                self.op(")");
            }
        }
    }
    fn record_const_value(&mut self) {
        self.op("(");
        let n = self.rng.range(1, 3);
        for k in 0..n {
            if k > 0 {
                self.op(";");
            }
            let f = *self.rng.pick(&["X", "Y", "Name", "Value", "Left", "Top"]);
            self.push(f, if SOFT_IDENTS.contains(&f) { GK::SoftIdent } else { GK::Ident });
            self.op(":");
            match self.rng.below(4) {
                0 => self.string_lit(),
                1 => {
                    let i = self.op("-");
                    self.p.toks[i].tight_right = true;
                    self.number_small();
                }
                _ => self.number(),
            }
        }
        self.op(")");
    }
    /// `deprecated 'text'`, `platform`, `experimental`, `library` hint directive (no semicolon)
    fn hint_directive(&mut self) {
        self.feat("hint-directive");
        match self.rng.below(4) {
            0 => {
                self.kw("deprecated");
                self.push("'use something else'", GK::Str);
            }
            1 => {
                self.kw("deprecated");
            }
            2 => {
                self.kw("platform");
            }
            _ => {
                self.kw("experimental");
            }
        }
    }
    /// `[Attr]` / `[Attr(1, 'x')]` / `[A, B]`; the caller marks the line start
    fn attribute(&mut self) -> usize {
        self.feat("attribute");
        let first = self.op("[");
        let n = if self.rng.chance(1, 6) { 2 } else { 1 };
        for k in 0..n {
            if k > 0 {
                self.op(",");
            }
            let w = *self.rng.pick(&["Test", "Weak", "Volatile", "TestCase", "Setup", "Column", "JsonName"]);
            self.push(w, GK::Ident);
            if self.rng.chance(1, 2) {
                self.op_tight("(");
                let m = self.rng.range(1, 3);
                for j in 0..m {
                    if j > 0 {
                        self.op(",");
                    }
                    if self.rng.bool() {
                        self.string_lit();
                    } else {
                        self.number();
                    }
                }
                self.op(")");
            }
        }
        self.op("]");
        self.mark_line_end();
        first
    }

    fn var_section(&mut self) {
        self.feat("var-section");
        let w = if self.rng.chance(1, 8) { "threadvar" } else { "var" };
        let k = self.kw(w);
        self.mark_line_start(k);
        self.mark_line_end();
        let bi = self.p.blocks.len();
        self.p.blocks.push(Block { kind: BlockKind::DeclSection, opener: k, closer: None, items: vec![], anchors: vec![k] });
        self.depth += 1;
        let n = self.rng.range(1, 4);
        for _ in 0..n {
            self.budget -= 1;
            let m = self.new_name("V");
            self.mark_line_start(m);
            self.p.blocks[bi].items.push(m);
            let mut single = true;
            if self.rng.chance(1, 4) {
                self.op(",");
                self.new_name("W");
                single = false;
            }
            self.op(":");
            self.type_ref(0);
            if w == "var" && self.rng.chance(1, 5) {
                self.feat("initialised-var");
                self.op("=");
                self.number();
            } else if w == "var" && self.o.extended && self.rng.chance(1, 10) && single && self.p.toks[self.p.toks.len() - 2].text == ":" {
                // only a single variable of a simple type may be `absolute`
                self.feat("absolute-var");
                self.kw("absolute");
                self.plain_ident();
            }
            self.semi();
        }
        self.depth -= 1;
    }

    fn routine_heading(&mut self, qualified: bool, in_type: bool) {
        let r = self.rng.below(10);
        if in_type && self.rng.chance(1, 6) {
            self.feat("class-method");
            // `class` keyword first; caller marks line start on first token
            self.kw("class");
        }
        let is_func = match r {
            0..=3 => {
                self.kw("function");
                true
            }
            4..=7 => {
                self.kw("procedure");
                false
            }
            8 => {
                self.feat("constructor");
                self.kw("constructor");
                false
            }
            _ => {
                self.feat("destructor");
                self.kw("destructor");
                false
            }
        };
        if qualified {
            let t = *self.rng.pick(&["TFoo", "TBar", "TMyClass"]);
            self.push(t, GK::Ident);
            self.op(".");
        }
        let n = *self.rng.pick(&["DoIt", "GetValue", "SetValue", "Create", "Destroy", "Execute", "Process", "Run", "Init"]);
        self.push(n, GK::Ident);
        if self.rng.chance(2, 3) {
            self.param_list();
        }
        if is_func {
            self.op(":");
            self.type_ident(false);
        }
        self.semi();
        if self.rng.chance(1, 4) {
            self.feat("routine-directive");
            let ds: &[&str] = if in_type { &["virtual", "override", "overload", "abstract", "static", "inline", "stdcall", "reintroduce", "dynamic"] } else { &["overload", "inline", "stdcall", "cdecl", "forward", "register"] };
            let d = *self.rng.pick(ds);
            if !(d == "forward" && qualified) {
                self.kw(d);
                self.semi();
            }
        } else if self.o.extended && self.rng.chance(1, 8) {
            match self.rng.below(3) {
                0 if in_type && !is_func => {
                    self.feat("message-directive");
                    self.kw("message");
                    self.push("WM_PAINT", GK::Ident);
                    self.semi();
                }
                1 if !in_type && !qualified => {
                    self.feat("external-directive");
                    self.kw("external");
                    self.push("'kernel32.dll'", GK::Str);
                    if self.rng.bool() {
                        self.kw("name");
                        self.push("'DoItW'", GK::Str);
                    }
                    self.semi();
                }
                _ => {
                    self.hint_directive();
                    self.semi();
                }
            }
        }
    }

    fn class_type(&mut self, name_tok: usize) {
        let what = self.rng.below(10);
        let w = if what < 7 { "class" } else { "record" };
        self.feat(if w == "class" { "class-type" } else { "record-type" });
        let mut modifier = false;
        if w == "record" && self.o.extended && self.rng.chance(1, 4) {
            self.feat("packed-record");
            self.kw("packed");
        }
        let head = self.kw(w);
        if w == "class" && self.o.extended && self.rng.chance(1, 8) {
            self.feat("class-abstract-sealed");
            let m = *self.rng.pick(&["abstract", "sealed"]);
            self.kw(m);
            modifier = true;
        }
        if w == "class" && (modifier || self.rng.bool()) {
            self.op_tight("(");
            let t = *self.rng.pick(&["TObject", "TInterfacedObject", "TComponent", "TBase"]);
            self.push(t, GK::Ident);
            if self.rng.chance(1, 4) {
                self.op(",");
                self.push("IFoo", GK::Ident);
            }
            self.op(")");
        }
        self.mark_line_end();
        let _ = head;
        // members without visibility
        let body_bi = self.p.blocks.len();
        self.p.blocks.push(Block { kind: BlockKind::TypeBody, opener: head, closer: None, items: vec![], anchors: vec![name_tok] });
        self.depth += 1;
        let n0 = self.rng.below(3);
        for _ in 0..n0 {
            let m = self.member(w == "class");
            self.p.blocks[body_bi].items.push(m);
        }
        if w == "record" && self.o.extended && self.rng.chance(1, 4) {
            let m = self.class_operator_decl();
            self.p.blocks[body_bi].items.push(m);
        }
        if self.o.extended && self.rng.chance(1, 6) {
            let m = self.nested_section();
            self.p.blocks[body_bi].items.push(m);
            // a `class ...` member directly after the section ends it
            if self.rng.chance(1, 2) {
                let m = self.class_prefixed_member(w == "class");
                self.p.blocks[body_bi].items.push(m);
            }
        }
        let nsec = self.rng.below(4);
        for _ in 0..nsec {
            self.feat("visibility-section");
            let first = self.p.toks.len();
            if self.rng.chance(1, 5) {
                self.kw("strict");
                let v = *self.rng.pick(&["private", "protected"]);
                self.kw(v);
            } else {
                let v = *self.rng.pick(&["private", "protected", "public", "published"]);
                self.kw(v);
            }
            self.mark_line_start(first);
            self.mark_line_end();
            let bi = self.p.blocks.len();
            self.p.blocks.push(Block { kind: BlockKind::Visibility, opener: first, closer: None, items: vec![], anchors: vec![first] });
            self.depth += 1;
            let n = self.rng.range(0, 3);
            for _ in 0..n {
                let m = self.member(w == "class");
                self.p.blocks[bi].items.push(m);
            }
            if self.o.extended && self.rng.chance(1, 8) {
                let m = self.nested_section();
                self.p.blocks[bi].items.push(m);
                if self.rng.chance(1, 2) {
                    let m = self.class_prefixed_member(w == "class");
                    self.p.blocks[bi].items.push(m);
                }
            }
            self.depth -= 1;
        }
        self.depth -= 1;
        let e = self.kw("end");
        self.mark_line_start(e);
        self.p.blocks[body_bi].closer = Some(e);
    }

    /// `class function Foo: Integer; static;` / `class procedure Bar;` / `class property P: T read F;`
    fn class_prefixed_member(&mut self, is_class: bool) -> usize {
        self.feat("class-prefixed-member-after-section");
        self.budget -= 1;
        let first = self.kw("class");
        match self.rng.below(3) {
            0 => {
                self.kw("function");
                self.new_name("Get");
                self.op(":");
                self.type_ident(false);
                self.semi();
                if !is_class || self.rng.bool() {
                    self.kw("static");
                    self.semi();
                }
            }
            1 => {
                self.kw("procedure");
                self.new_name("Do");
                self.param_list();
                self.semi();
                if !is_class {
                    self.kw("static");
                    self.semi();
                }
            }
            _ => {
                self.kw("property");
                self.new_name("Prop");
                self.op(":");
                self.type_ident(false);
                self.kw("read");
                self.new_name("F");
                self.semi();
            }
        }
        self.mark_line_start(first);
        first
    }

    /// `class operator Add(A, B: TFoo): TFoo;` inside a record
    fn class_operator_decl(&mut self) -> usize {
        self.feat("class-operator");
        self.budget -= 1;
        let first = self.kw("class");
        self.kw("operator");
        let n = *self.rng.pick(&["Add", "Subtract", "Implicit", "Explicit", "Equal", "Negative"]);
        self.push(n, GK::Ident);
        self.op_tight("(");
        self.push("A", GK::Ident);
        if !matches!(n, "Implicit" | "Explicit" | "Negative") {
            self.op(",");
            self.push("B", GK::Ident);
        }
        self.op(":");
        self.push("TFoo", GK::Ident);
        self.op(")");
        self.op(":");
        let t = if n == "Equal" { "Boolean" } else { *self.rng.pick(&["TFoo", "Integer", "Double"]) };
        self.push(t, GK::Ident);
        self.semi();
        self.mark_line_start(first);
        first
    }

    /// nested `type` / `const` / `var` / `class var` section inside a class or record (placed last in
    /// its member list); returns the section keyword
    fn nested_section(&mut self) -> usize {
        self.feat("nested-section-in-type");
        self.budget -= 1;
        let which = self.rng.below(4);
        let first = self.p.toks.len();
        match which {
            0 => {
                self.kw("type");
            }
            1 => {
                self.kw("const");
            }
            2 => {
                self.kw("var");
            }
            _ => {
                self.kw("class");
                self.kw("var");
            }
        }
        self.mark_line_start(first);
        self.mark_line_end();
        let bi = self.p.blocks.len();
        self.p.blocks.push(Block { kind: BlockKind::DeclSection, opener: first, closer: None, items: vec![], anchors: vec![first] });
        self.depth += 1;
        let n = self.rng.range(1, 2);
        for _ in 0..n {
            let m = match which {
                0 => {
                    let m = self.new_name("TInner");
                    self.op("=");
                    self.type_ref(0);
                    m
                }
                1 => {
                    let m = self.new_name("C");
                    self.op("=");
                    // no anonymous routines here: a type body holds no code, and a `case` inside one
                    // would have to be read as a variant part
                    let saved = std::mem::replace(&mut self.anon_depth, 99);
                    self.expr(1);
                    self.anon_depth = saved;
                    m
                }
                _ => {
                    let m = self.new_name("F");
                    self.op(":");
                    self.type_ref(0);
                    m
                }
            };
            self.semi();
            self.mark_line_start(m);
            self.p.blocks[bi].items.push(m);
        }
        self.depth -= 1;
        first
    }

    fn member(&mut self, is_class: bool) -> usize {
        self.budget -= 1;
        let first = self.p.toks.len();
        let mut after_attr = None;
        if self.o.extended && self.rng.chance(1, 8) {
            let a = self.attribute();
            self.mark_line_start(a);
            if self.rng.chance(1, 4) {
                let a2 = self.attribute();
                self.mark_line_start(a2);
            }
            after_attr = Some(self.p.toks.len());
        }
        match self.rng.below(10) {
            0..=4 => {
                self.feat("field");
                self.new_name("F");
                if self.rng.chance(1, 5) {
                    self.op(",");
                    self.new_name("G");
                }
                self.op(":");
                self.type_ref(0);
                self.semi();
            }
            5..=7 => {
                self.feat("method-decl");
                self.routine_heading(false, true);
            }
            _ => {
                self.feat("property");
                self.kw("property");
                self.new_name("Prop");
                if self.rng.chance(1, 5) {
                    self.op_tight("[");
                    self.push("Index", GK::SoftIdent);
                    self.op(":");
                    self.push("Integer", GK::Ident);
                    self.op("]");
                }
                self.op(":");
                self.type_ident(false);
                if self.o.extended && self.rng.chance(1, 8) {
                    self.feat("property-index");
                    self.kw("index");
                    self.number_small();
                }
                self.kw("read");
                self.new_name("F");
                if self.rng.bool() {
                    self.kw("write");
                    self.new_name("Set");
                }
                if is_class && self.o.extended && self.rng.chance(1, 6) {
                    self.feat("property-stored");
                    self.kw("stored");
                    let w = *self.rng.pick(&["False", "True", "IsStored"]);
                    self.push(w, GK::Ident);
                }
                if is_class && self.o.extended && self.rng.chance(1, 10) {
                    self.feat("property-implements");
                    self.kw("implements");
                    self.push("IFoo", GK::Ident);
                    if self.rng.chance(1, 3) {
                        self.op(",");
                        self.push("IBar", GK::Ident);
                    }
                } else if is_class && self.rng.chance(1, 6) {
                    self.kw("default");
                    self.number_small();
                } else if is_class && self.o.extended && self.rng.chance(1, 10) {
                    self.feat("property-nodefault");
                    self.kw("nodefault");
                }
                self.semi();
            }
        }
        if let Some(m) = after_attr {
            // the member proper starts its own line below its attributes
            self.mark_line_start(m);
        }
        self.mark_line_start(first);
        first
    }

    fn type_section(&mut self) {
        self.feat("type-section");
        let k = self.kw("type");
        self.mark_line_start(k);
        self.mark_line_end();
        let bi = self.p.blocks.len();
        self.p.blocks.push(Block { kind: BlockKind::DeclSection, opener: k, closer: None, items: vec![], anchors: vec![k] });
        self.depth += 1;
        let n = self.rng.range(1, 3);
        for _ in 0..n {
            self.budget -= 1;
            let mut attr = None;
            if self.o.extended && self.rng.chance(1, 10) {
                let a = self.attribute();
                self.mark_line_start(a);
                attr = Some(a);
            }
            let m = self.new_name("T");
            self.mark_line_start(m);
            self.p.blocks[bi].items.push(attr.unwrap_or(m));
            if self.o.extended && self.rng.chance(1, 8) {
                self.op("=");
                self.extended_type_rhs(m);
                self.semi();
                continue;
            }
            let rhs_kind = self.rng.below(12);
            // only classes, records, interfaces and procedural types can be generic
            if self.o.allow_generics && matches!(rhs_kind, 0..=4 | 6 | 8) && self.rng.chance(1, 4) {
                self.feat("generic-type-decl");
                let i = self.op("<");
                self.p.toks[i].tight_left = true;
                self.p.toks[i].tight_right = true;
                self.push("T", GK::Ident);
                if self.rng.chance(1, 3) {
                    self.op(":");
                    self.kw("class");
                    if self.o.extended && self.rng.chance(1, 2) {
                        self.feat("generic-constraint-list");
                        self.op(",");
                        self.kw("constructor");
                    }
                }
                if self.o.extended && self.rng.chance(1, 4) {
                    self.feat("generic-constraint-list");
                    self.op(";");
                    self.push("U", GK::Ident);
                    self.op(":");
                    let c = *self.rng.pick(&["record", "IInterface", "TObject"]);
                    if c == "record" {
                        self.kw(c);
                    } else {
                        self.push(c, GK::Ident);
                    }
                }
                let i = self.op(">");
                self.p.toks[i].tight_left = true;
            }
            self.op("=");
            match rhs_kind {
                0..=4 => self.class_type(m),
                5 => {
                    self.feat("enum-type");
                    self.op("(");
                    let c = self.rng.range(2, 6);
                    for k in 0..c {
                        if k > 0 {
                            self.op(",");
                        }
                        self.new_name("e");
                    }
                    self.op(")");
                }
                6 => {
                    self.feat("procedural-type");
                    let f = self.rng.bool();
                    if self.rng.chance(1, 3) {
                        self.kw("reference");
                        self.kw("to");
                    }
                    self.kw(if f { "function" } else { "procedure" });
                    self.param_list();
                    if f {
                        self.op(":");
                        self.type_ident(false);
                    }
                    if self.rng.chance(1, 3) {
                        self.kw("of");
                        self.kw("object");
                    }
                }
                9 => {
                    // record with a variant part
                    self.feat("variant-record");
                    let head = self.kw("record");
                    self.mark_line_end();
                    let body_bi = self.p.blocks.len();
                    self.p.blocks.push(Block { kind: BlockKind::TypeBody, opener: head, closer: None, items: vec![], anchors: vec![m] });
                    self.depth += 1;
                    let nf = self.rng.below(3);
                    for _ in 0..nf {
                        let f = self.new_name("F");
                        self.mark_line_start(f);
                        self.p.blocks[body_bi].items.push(f);
                        self.op(":");
                        self.type_ident(false);
                        self.semi();
                    }
                    let c = self.kw("case");
                    self.mark_line_start(c);
                    if self.rng.bool() {
                        self.new_name("Tag");
                        self.op(":");
                    }
                    let t = *self.rng.pick(&["Integer", "Boolean", "Byte", "TKind"]);
                    self.push(t, GK::Ident);
                    self.kw("of");
                    self.mark_line_end();
                    self.depth += 1;
                    let nv = self.rng.range(1, 3);
                    for v in 0..nv {
                        let lab = self.p.toks.len();
                        if self.rng.chance(1, 3) {
                            self.number_small();
                            self.op(",");
                        }
                        self.number_small();
                        self.mark_line_start(lab);
                        self.op(":");
                        self.op("(");
                        let nfl = self.rng.range(0, 3);
                        for k in 0..nfl {
                            if k > 0 {
                                self.op(";");
                            }
                            self.new_name("V");
                            if self.rng.chance(1, 4) {
                                self.op(",");
                                self.new_name("W");
                            }
                            self.op(":");
                            self.type_ident(false);
                        }
                        self.op(")");
                        // the last variant may omit the semicolon
                        if v + 1 < nv || self.rng.bool() {
                            self.semi();
                        } else {
                            self.mark_line_end();
                        }
                    }
                    self.depth -= 2;
                    let e = self.kw("end");
                    self.mark_line_start(e);
                    self.p.blocks[body_bi].closer = Some(e);
                }
                7 => {
                    self.feat("subrange-type");
                    self.number_small();
                    self.op("..");
                    self.number_small();
                }
                8 => {
                    self.feat("interface-type");
                    let head = self.kw("interface");
                    if self.rng.bool() {
                        self.op_tight("(");
                        self.push("IInterface", GK::Ident);
                        self.op(")");
                    }
                    self.mark_line_end();
                    let body_bi = self.p.blocks.len();
                    self.p.blocks.push(Block { kind: BlockKind::TypeBody, opener: head, closer: None, items: vec![], anchors: vec![m] });
                    self.depth += 1;
                    if self.rng.bool() {
                        self.feat("guid");
                        let g = self.op("[");
                        self.mark_line_start(g);
                        self.p.blocks[body_bi].items.push(g);
                        self.push("'{12345678-1234-1234-1234-1234567890AB}'", GK::Str);
                        self.op("]");
                        self.mark_line_end();
                    }
                    let c = self.rng.range(1, 3);
                    for _ in 0..c {
                        let first = self.p.toks.len();
                        self.routine_heading(false, false);
                        self.mark_line_start(first);
                        self.p.blocks[body_bi].items.push(first);
                    }
                    self.depth -= 1;
                    let e = self.kw("end");
                    self.mark_line_start(e);
                    self.p.blocks[body_bi].closer = Some(e);
                }
                _ => self.type_ref(0),
            }
            self.semi();
        }
        self.depth -= 1;
    }

    /// helper types, class references: `class helper for TFoo ... end`, `record helper for TRec ... end`,
    /// `class of TFoo`
    fn extended_type_rhs(&mut self, name_tok: usize) {
        match self.rng.below(5) {
            3 => {
                self.feat("distinct-type");
                self.kw("type");
                let t = *self.rng.pick(&["Integer", "string", "TFoo", "Double"]);
                self.push(t, GK::Ident);
            }
            4 => {
                self.feat("dispinterface-type");
                let head = self.kw("dispinterface");
                self.mark_line_end();
                let body_bi = self.p.blocks.len();
                self.p.blocks.push(Block { kind: BlockKind::TypeBody, opener: head, closer: None, items: vec![], anchors: vec![name_tok] });
                self.depth += 1;
                if self.rng.bool() {
                    let g = self.op("[");
                    self.mark_line_start(g);
                    self.p.blocks[body_bi].items.push(g);
                    self.push("'{12345678-1234-1234-1234-1234567890AB}'", GK::Str);
                    self.op("]");
                    self.mark_line_end();
                }
                let c = self.rng.range(1, 4);
                for k in 0..c {
                    let first = self.p.toks.len();
                    match self.rng.below(3) {
                        0 => {
                            self.kw("procedure");
                            self.new_name("M");
                            if self.rng.bool() {
                                self.param_list();
                            }
                            self.semi();
                        }
                        1 => {
                            self.kw("function");
                            self.new_name("M");
                            self.op(":");
                            self.type_ident(false);
                            self.semi();
                        }
                        _ => {
                            self.kw("property");
                            self.new_name("Prop");
                            self.op(":");
                            self.type_ident(false);
                            if self.rng.chance(1, 3) {
                                let ro = self.rng.bool();
                                self.kw(if ro { "readonly" } else { "writeonly" });
                            }
                        }
                    }
                    self.kw("dispid");
                    self.push(&format!("{}", k + 1), GK::Number);
                    self.semi();
                    self.mark_line_start(first);
                    self.p.blocks[body_bi].items.push(first);
                }
                self.depth -= 1;
                let e = self.kw("end");
                self.mark_line_start(e);
                self.p.blocks[body_bi].closer = Some(e);
            }
            0 => {
                self.feat("class-reference-type");
                self.kw("class");
                self.kw("of");
                let t = *self.rng.pick(&["TFoo", "TBar", "TComponent", "Exception"]);
                self.push(t, GK::Ident);
            }
            k => {
                self.feat("helper-type");
                let head = self.kw(if k == 1 { "class" } else { "record" });
                self.kw("helper");
                self.kw("for");
                let t = *self.rng.pick(&["TFoo", "TBar", "TStrings", "TRec"]);
                self.push(t, GK::Ident);
                self.mark_line_end();
                let body_bi = self.p.blocks.len();
                self.p.blocks.push(Block { kind: BlockKind::TypeBody, opener: head, closer: None, items: vec![], anchors: vec![name_tok] });
                self.depth += 1;
                let c = self.rng.range(0, 3);
                for _ in 0..c {
                    let first = self.p.toks.len();
                    self.feat("method-decl");
                    self.routine_heading(false, true);
                    self.mark_line_start(first);
                    self.p.blocks[body_bi].items.push(first);
                }
                self.depth -= 1;
                let e = self.kw("end");
                self.mark_line_start(e);
                self.p.blocks[body_bi].closer = Some(e);
            }
        }
    }

    fn routine_impl(&mut self, qualified: bool) {
        self.feat("routine-impl");
        self.budget -= 1;
        let first = self.p.toks.len();
        self.routine_heading_impl(qualified);
        self.mark_line_start(first);
        let saved_labels = std::mem::take(&mut self.labels);
        let mut pending_labels: Vec<String> = vec![];
        if self.o.extended && self.rng.chance(1, 10) {
            // label section; every declared label is set exactly once, in the routine's own statement list
            self.feat("label-section");
            let k = self.kw("label");
            self.mark_line_start(k);
            self.mark_line_end();
            let bi = self.p.blocks.len();
            self.p.blocks.push(Block { kind: BlockKind::DeclSection, opener: k, closer: None, items: vec![], anchors: vec![k] });
            self.depth += 1;
            let n = self.rng.range(1, 2);
            for j in 0..n {
                if j > 0 {
                    self.op(",");
                }
                let name = format!("Lbl{}", self.rng.below(100) * 2 + j as usize);
                let t = self.push(&name, GK::Ident);
                if j == 0 {
                    self.mark_line_start(t);
                    self.p.blocks[bi].items.push(t);
                }
                pending_labels.push(name);
            }
            self.semi();
            self.depth -= 1;
        }
        // local declarations
        let nd = self.rng.below(3);
        for _ in 0..nd {
            match self.rng.below(4) {
                0 => self.const_section(),
                1 | 2 => self.var_section(),
                _ => {
                    if self.depth < 2 && self.budget > 4 {
                        self.feat("nested-routine");
                        self.depth += 1;
                        self.routine_impl(false);
                        self.depth -= 1;
                    } else {
                        self.var_section()
                    }
                }
            }
        }
        let n = if self.budget > 0 { self.rng.range(1, 5) } else { self.rng.range(0, 1) };
        let b = self.p.toks.len();
        if pending_labels.is_empty() {
            self.begin_end_block(BlockKind::PlainBegin, vec![b], n);
        } else {
            self.labels = pending_labels.clone();
            let bk = self.kw("begin");
            self.mark_line_end();
            let bi = self.p.blocks.len();
            self.p.blocks.push(Block { kind: BlockKind::PlainBegin, opener: bk, closer: None, items: vec![], anchors: vec![b] });
            self.depth += 1;
            let total = n.max(pending_labels.len());
            for j in 0..total {
                if j < pending_labels.len() {
                    self.feat("labelled-statement");
                    let l = self.push(&pending_labels[j].clone(), GK::Ident);
                    self.mark_line_start(l);
                    self.p.blocks[bi].items.push(l);
                    self.op(":");
                    self.mark_line_end();
                    // the statement proper follows on its own line, at the label's indentation
                    self.statement(true);
                } else {
                    let s = self.statement(true);
                    self.p.blocks[bi].items.push(s);
                }
            }
            self.depth -= 1;
            let e = self.kw("end");
            self.mark_line_start(e);
            self.p.blocks[bi].closer = Some(e);
        }
        self.labels = saved_labels;
        self.mark_line_start(b);
        self.semi();
    }
    fn routine_heading_impl(&mut self, qualified: bool) {
        let r = self.rng.below(10);
        let is_func = r < 4;
        if qualified && self.rng.chance(1, 8) {
            self.kw("class");
        }
        match r {
            0..=3 => self.kw("function"),
            4..=7 => self.kw("procedure"),
            8 if qualified => self.kw("constructor"),
            9 if qualified => self.kw("destructor"),
            _ => self.kw("procedure"),
        };
        if qualified {
            let t = *self.rng.pick(&["TFoo", "TBar", "TMyClass"]);
            self.push(t, GK::Ident);
            if self.o.allow_generics && self.rng.chance(1, 8) {
                self.feat("generic-method-impl");
                let i = self.op("<");
                self.p.toks[i].tight_left = true;
                self.p.toks[i].tight_right = true;
                self.push("T", GK::Ident);
                let i = self.op(">");
                self.p.toks[i].tight_left = true;
            }
            self.op(".");
        }
        let n = *self.rng.pick(&["DoIt", "GetValue", "SetValue", "Create", "Destroy", "Execute", "Process", "Run", "Init"]);
        self.push(n, GK::Ident);
        if self.rng.chance(2, 3) {
            self.param_list();
        }
        if is_func {
            self.op(":");
            self.type_ident(false);
        }
        self.semi();
        if !qualified && self.rng.chance(1, 6) {
            self.feat("routine-directive");
            let d = *self.rng.pick(&["overload", "inline", "stdcall", "cdecl"]);
            self.kw(d);
            self.semi();
        }
    }

    fn exports_clause(&mut self) {
        self.feat("exports-clause");
        let k = self.kw("exports");
        self.mark_line_start(k);
        let n = self.rng.range(1, 3);
        for i in 0..n {
            if i > 0 {
                self.op(",");
            }
            self.plain_ident();
            if self.rng.chance(1, 3) {
                self.kw("index");
                self.number_small();
            }
            if self.rng.chance(1, 2) {
                self.kw("name");
                self.push("'exported_name'", GK::Str);
            }
        }
        self.semi();
    }

    fn uses_clause(&mut self) {
        self.feat("uses");
        let k = self.kw("uses");
        self.mark_line_start(k);
        let n = self.rng.range(1, 5);
        for i in 0..n {
            if i > 0 {
                self.op(",");
            }
            let u = *self.rng.pick(UNIT_NAMES);
            let mut first = true;
            for part in u.split('.') {
                if !first {
                    self.op(".");
                }
                first = false;
                self.push(part, GK::Ident);
            }
            if self.uses_in && self.rng.chance(1, 2) {
                self.feat("uses-in-file");
                self.kw("in");
                let f = format!("'{}.pas'", u.replace('.', "\\"));
                self.push(&f, GK::Str);
            }
        }
        self.semi();
    }

    fn decl_sections(&mut self, n: usize, allow_impl: bool) {
        for _ in 0..n {
            if self.budget <= 0 {
                break;
            }
            match self.rng.below(10) {
                0 | 1 => self.const_section(),
                2 | 3 => self.var_section(),
                4 | 5 => self.type_section(),
                _ => {
                    if allow_impl {
                        if self.rng.chance(1, 8) {
                            // forward (or external) declaration between the implementations
                            self.feat("forward-decl-in-implementation");
                            let first = self.p.toks.len();
                            let is_func = self.rng.bool();
                            self.kw(if is_func { "function" } else { "procedure" });
                            self.new_name("Later");
                            self.param_list();
                            if is_func {
                                self.op(":");
                                self.type_ident(false);
                            }
                            self.semi();
                            if self.o.extended && self.rng.chance(1, 3) {
                                self.kw("stdcall");
                                self.semi();
                            }
                            if self.rng.chance(3, 5) {
                                self.kw("forward");
                                if self.o.extended && self.rng.chance(1, 3) {
                                    // directives may follow `forward`
                                    self.feat("forward-then-directive");
                                    self.semi();
                                    self.kw("overload");
                                }
                            } else {
                                self.kw("external");
                                self.push("'lib.dll'", GK::Str);
                                if self.o.extended {
                                    match self.rng.below(5) {
                                        0 => {
                                            self.feat("external-name");
                                            self.kw("name");
                                            self.push("'Sym'", GK::Str);
                                        }
                                        1 => {
                                            self.feat("external-index");
                                            self.kw("index");
                                            self.number_small();
                                        }
                                        2 => {
                                            self.feat("external-delayed");
                                            self.kw("delayed");
                                        }
                                        _ => {}
                                    }
                                }
                            }
                            self.semi();
                            self.mark_line_start(first);
                        }
                        let q = self.rng.bool();
                        self.routine_impl(q);
                    } else {
                        let first = self.p.toks.len();
                        self.feat("routine-forward-decl");
                        self.routine_heading(false, false);
                        self.mark_line_start(first);
                    }
                }
            }
        }
    }

    fn stmt_list_block(&mut self, kind: BlockKind, opener: usize, n: usize) -> usize {
        let bi = self.p.blocks.len();
        self.p.blocks.push(Block { kind, opener, closer: None, items: vec![], anchors: vec![opener] });
        self.depth += 1;
        for _ in 0..n {
            let s = self.statement(true);
            self.p.blocks[bi].items.push(s);
        }
        self.depth -= 1;
        bi
    }

    pub fn unit(mut self) -> Program {
        self.feat("unit");
        let k = self.kw("unit");
        self.mark_line_start(k);
        self.push("MyUnit", GK::Ident);
        if self.rng.chance(1, 3) {
            self.op(".");
            self.push("Sub", GK::Ident);
        }
        self.semi();
        let k = self.kw("interface");
        self.mark_line_start(k);
        self.mark_line_end();
        if self.rng.chance(2, 3) {
            self.uses_clause();
        }
        let n = self.rng.range(0, 3);
        self.decl_sections(n, false);
        let k = self.kw("implementation");
        self.mark_line_start(k);
        self.mark_line_end();
        if self.rng.chance(1, 3) {
            self.uses_clause();
        }
        let mut guard = 0;
        while self.budget > 0 && guard < 40 {
            guard += 1;
            self.decl_sections(1, true);
        }
        if self.rng.chance(1, 3) {
            self.feat("initialization");
            let k = self.kw("initialization");
            self.mark_line_start(k);
            self.mark_line_end();
            let n = self.rng.range(1, 3);
            self.stmt_list_block(BlockKind::UnitSection, k, n);
            if self.rng.bool() {
                self.feat("finalization");
                let k = self.kw("finalization");
                self.mark_line_start(k);
                self.mark_line_end();
                let n = self.rng.range(1, 2);
                self.stmt_list_block(BlockKind::UnitSection, k, n);
            }
        }
        let e = self.kw("end");
        self.mark_line_start(e);
        let d = self.op(".");
        self.p.toks[d].line_end = true;
        self.p
    }

    pub fn program(mut self) -> Program {
        self.feat("program");
        let w = if self.rng.chance(1, 5) { "library" } else { "program" };
        let k = self.kw(w);
        self.mark_line_start(k);
        self.push("MyProg", GK::Ident);
        self.semi();
        if self.rng.chance(2, 3) {
            self.uses_in = self.o.extended && self.rng.chance(1, 3);
            self.uses_clause();
            self.uses_in = false;
        }
        let mut guard = 0;
        while self.budget > 3 && guard < 40 {
            guard += 1;
            self.decl_sections(1, true);
        }
        if w == "library" && self.o.extended && self.rng.chance(1, 2) {
            self.exports_clause();
        }
        let b = self.p.toks.len();
        let n = self.rng.range(1, 5);
        self.begin_end_block(BlockKind::PlainBegin, vec![b], n);
        self.mark_line_start(b);
        let d = self.op(".");
        self.p.toks[d].line_end = true;
        self.p
    }

    /// a bare routine implementation / declaration list, as in many snippets
    pub fn fragment(mut self) -> Program {
        self.feat("fragment");
        let mut guard = 0;
        while self.budget > 0 && guard < 40 {
            guard += 1;
            self.decl_sections(1, true);
        }
        if self.p.toks.is_empty() {
            self.routine_impl(false);
        }
        self.p
    }
}

pub fn generate(rng: &mut Rng, opts: GramOpts) -> Program {
    let shape = rng.below(10);
    let g = Gen::new(rng, opts);
    match shape {
        0..=3 => g.unit(),
        4..=5 => g.program(),
        _ => g.fragment(),
    }
}
