//! Independent reference scanner for Delphi lexical structure, written from the language rules
//! (character classes, literal and comment forms), not from pasfmt's lexer. It is used as the
//! token-boundary oracle for outputs and inputs of the formatter.

#[derive(Clone, Copy, Debug, PartialEq, Eq, Hash)]
pub enum RK {
    Word,
    /// `&name`
    AmpWord,
    Number,
    /// single-line text literal (quoted parts and `#n` parts glued)
    Str,
    /// multi-line text literal
    MlStr,
    /// literal that runs into the end of the line / file
    UntermStr,
    LineComment,
    BlockComment,
    /// `{$...}` or `(*$...*)`
    Directive,
    Op,
    /// text between `asm` and `end` is reported as one token per non-blank run
    AsmText,
    Unknown,
}

#[derive(Clone, Copy, Debug, PartialEq, Eq)]
pub struct RTok {
    pub kind: RK,
    /// byte range of the token content
    pub start: usize,
    pub end: usize,
    /// token lies between `asm` and its `end`
    pub in_asm: bool,
    /// block comment / directive that is not closed before end of input
    pub unterminated: bool,
}

impl RTok {
    pub fn text<'a>(&self, src: &'a str) -> &'a str {
        &src[self.start..self.end]
    }
}

#[inline]
pub fn is_blank_char(c: char) -> bool {
    c <= '\u{20}' || c == '\u{3000}'
}

#[inline]
fn is_word_start(c: char) -> bool {
    c.is_ascii_alphabetic() || c == '_' || (c as u32 >= 0x80 && c != '\u{3000}')
}
#[inline]
fn is_word_char(c: char) -> bool {
    is_word_start(c) || c.is_ascii_digit()
}

pub const KEYWORDS: &[&str] = &[
    // reserved
    "and", "array", "as", "asm", "begin", "case", "class", "const", "constructor", "destructor", "dispinterface",
    "div", "do", "downto", "else", "end", "except", "exports", "file", "finalization", "finally", "for", "function",
    "goto", "if", "implementation", "in", "inherited", "initialization", "inline", "interface", "is", "label",
    "library", "mod", "nil", "not", "object", "of", "or", "packed", "procedure", "program", "property", "raise",
    "record", "repeat", "resourcestring", "set", "shl", "shr", "string", "then", "threadvar", "to", "try", "type",
    "unit", "until", "uses", "var", "while", "with", "xor",
    // directives (keywords in context)
    "absolute", "abstract", "align", "assembler", "at", "automated", "cdecl", "contains", "default", "delayed",
    "deprecated", "dispid", "dynamic", "experimental", "export", "external", "far", "final", "forward", "helper",
    "implements", "index", "local", "message", "name", "near", "nodefault", "on", "operator", "out", "overload",
    "override", "package", "pascal", "platform", "private", "protected", "public", "published", "read", "readonly",
    "reference", "register", "reintroduce", "requires", "resident", "safecall", "sealed", "static", "stdcall",
    "stored", "strict", "unsafe", "varargs", "virtual", "winapi", "write", "writeonly",
];

pub fn is_keyword_capable(word: &str) -> bool {
    let l = word.to_ascii_lowercase();
    KEYWORDS.contains(&l.as_str())
}

struct Sc<'a> {
    s: &'a str,
    b: &'a [u8],
    i: usize,
}

impl<'a> Sc<'a> {
    fn peek(&self) -> Option<char> {
        self.s[self.i..].chars().next()
    }
    fn byte(&self, off: usize) -> Option<u8> {
        self.b.get(self.i + off).copied()
    }
    fn skip_blanks(&mut self) {
        while let Some(c) = self.peek() {
            if is_blank_char(c) {
                self.i += c.len_utf8();
            } else {
                break;
            }
        }
    }
    fn take_while(&mut self, f: impl Fn(char) -> bool) {
        while let Some(c) = self.peek() {
            if f(c) {
                self.i += c.len_utf8();
            } else {
                break;
            }
        }
    }
    fn find_from(&self, from: usize, pat: &str) -> Option<usize> {
        self.s[from..].find(pat).map(|p| p + from)
    }
}

/// Scan `src` completely. Never fails; every non-blank character belongs to exactly one token.
pub fn scan(src: &str) -> Vec<RTok> {
    let mut sc = Sc { s: src, b: src.as_bytes(), i: 0 };
    let mut out: Vec<RTok> = Vec::new();
    let mut in_asm = false;
    let mut prev_real_is_dot = false;
    loop {
        sc.skip_blanks();
        if sc.i >= src.len() {
            break;
        }
        let start = sc.i;
        let c = sc.peek().unwrap();
        let mut unterminated = false;
        let kind = match c {
            '/' if sc.byte(1) == Some(b'/') => {
                sc.take_while(|c| c != '\n' && c != '\r');
                RK::LineComment
            }
            '{' => {
                let is_dir = sc.byte(1) == Some(b'$');
                if is_dir && directive_is_if_expr(&src[start + 2..]) {
                    match directive_expr_end(src, start + 2, false) {
                        Some(e) => sc.i = e,
                        None => {
                            unterminated = true;
                            sc.i = trimmed_end(src);
                        }
                    }
                } else {
                    match sc.find_from(start + 1, "}") {
                        Some(p) => sc.i = p + 1,
                        None => {
                            unterminated = true;
                            sc.i = trimmed_end(src);
                        }
                    }
                }
                if is_dir { RK::Directive } else { RK::BlockComment }
            }
            '(' if sc.byte(1) == Some(b'*') => {
                let is_dir = sc.byte(2) == Some(b'$');
                if is_dir && directive_is_if_expr(&src[start + 3..]) {
                    match directive_expr_end(src, start + 3, true) {
                        Some(e) => sc.i = e,
                        None => {
                            unterminated = true;
                            sc.i = trimmed_end(src);
                        }
                    }
                } else {
                    match sc.find_from(start + 2, "*)") {
                        Some(p) => sc.i = p + 2,
                        None => {
                            unterminated = true;
                            sc.i = trimmed_end(src);
                        }
                    }
                }
                if is_dir { RK::Directive } else { RK::BlockComment }
            }
            '\'' | '#' => scan_text(&mut sc),
            '"' if in_asm => {
                sc.i += 1;
                loop {
                    match sc.peek() {
                        Some('\\') => {
                            sc.i += 1;
                            if let Some(c) = sc.peek() {
                                sc.i += c.len_utf8();
                            }
                        }
                        Some('"') => {
                            sc.i += 1;
                            break RK::Str;
                        }
                        None | Some('\n') | Some('\r') => break RK::UntermStr,
                        Some(c) => sc.i += c.len_utf8(),
                    }
                }
            }
            '@' if in_asm => {
                sc.i += 1;
                sc.take_while(|c| c.is_ascii_alphanumeric() || c == '_' || c == '@');
                RK::Word
            }
            '0'..='9' if in_asm => {
                sc.take_while(|c| c.is_ascii_hexdigit() || c == '_');
                if matches!(sc.peek(), Some('h' | 'H' | 'o' | 'O')) {
                    sc.i += 1;
                }
                RK::Number
            }
            '0'..='9' => {
                scan_decimal(&mut sc);
                RK::Number
            }
            '$' => {
                sc.i += 1;
                sc.take_while(|c| c.is_ascii_hexdigit() || c == '_');
                RK::Number
            }
            '%' => {
                sc.i += 1;
                sc.take_while(|c| c == '0' || c == '1' || c == '_');
                RK::Number
            }
            '&' => {
                sc.take_while(|c| c == '&');
                match sc.peek() {
                    Some('$') => {
                        sc.i += 1;
                        sc.take_while(|c| c.is_ascii_hexdigit() || c == '_');
                        RK::Number
                    }
                    Some('%') => {
                        sc.i += 1;
                        sc.take_while(|c| c == '0' || c == '1' || c == '_');
                        RK::Number
                    }
                    Some('0'..='9') => {
                        scan_decimal(&mut sc);
                        RK::Number
                    }
                    Some(c) if is_word_start(c) => {
                        sc.take_while(is_word_char);
                        RK::AmpWord
                    }
                    _ => RK::Unknown,
                }
            }
            c if is_word_start(c) => {
                sc.take_while(is_word_char);
                RK::Word
            }
            ':' => {
                sc.i += 1;
                if sc.peek() == Some('=') {
                    sc.i += 1;
                }
                RK::Op
            }
            '<' => {
                sc.i += 1;
                if matches!(sc.peek(), Some('=' | '>')) {
                    sc.i += 1;
                }
                RK::Op
            }
            '>' => {
                sc.i += 1;
                if sc.peek() == Some('=') {
                    sc.i += 1;
                }
                RK::Op
            }
            '.' => {
                sc.i += 1;
                if matches!(sc.peek(), Some('.' | ')')) {
                    sc.i += 1;
                }
                RK::Op
            }
            '(' => {
                sc.i += 1;
                if sc.peek() == Some('.') {
                    sc.i += 1;
                }
                RK::Op
            }
            '+' | '-' | '*' | '/' | ',' | ';' | '=' | '^' | '@' | '[' | ']' | ')' => {
                sc.i += 1;
                RK::Op
            }
            c => {
                sc.i += c.len_utf8();
                RK::Unknown
            }
        };
        let tok = RTok { kind, start, end: sc.i, in_asm, unterminated };
        // asm mode switching on words
        if kind == RK::Word {
            let w = tok.text(src);
            if !in_asm && !prev_real_is_dot && w.eq_ignore_ascii_case("asm") {
                in_asm = true;
            } else if in_asm && w.eq_ignore_ascii_case("end") {
                in_asm = false;
            }
        }
        if !matches!(kind, RK::LineComment | RK::BlockComment | RK::Directive) {
            prev_real_is_dot = kind == RK::Op && tok.text(src) == ".";
        }
        let mut tok = tok;
        if kind == RK::Word && tok.text(src).eq_ignore_ascii_case("end") {
            tok.in_asm = false;
        }
        out.push(tok);
    }
    out
}

fn trimmed_end(src: &str) -> usize {
    let mut e = src.len();
    for c in src.chars().rev() {
        if is_blank_char(c) {
            e -= c.len_utf8();
        } else {
            break;
        }
    }
    e
}

fn scan_decimal(sc: &mut Sc) {
    sc.take_while(|c| c.is_ascii_digit() || c == '_');
    // fraction: '.' followed by a digit (so that `1..2` and `1.Foo` are not fractions)
    if sc.byte(0) == Some(b'.') && matches!(sc.byte(1), Some(b'0'..=b'9')) {
        sc.i += 1;
        sc.take_while(|c| c.is_ascii_digit() || c == '_');
    }
    if matches!(sc.byte(0), Some(b'e' | b'E')) {
        sc.i += 1;
        if matches!(sc.byte(0), Some(b'+' | b'-')) {
            sc.i += 1;
        }
        if matches!(sc.byte(0), Some(b'0'..=b'9')) {
            sc.take_while(|c| c.is_ascii_digit() || c == '_');
        }
    }
}

/// text literal starting at a quote or '#'
fn scan_text(sc: &mut Sc) -> RK {
    // multi-line literal: odd run of >= 3 quotes directly followed by a line break
    if sc.byte(0) == Some(b'\'') {
        let mut q = 0;
        while sc.byte(q) == Some(b'\'') {
            q += 1;
        }
        if q >= 3 && q % 2 == 1 && matches!(sc.byte(q), Some(b'\r' | b'\n')) {
            let quotes = &sc.s[sc.i..sc.i + q];
            let body_start = sc.i + q;
            return match sc.s[body_start..].find(quotes) {
                Some(p) => {
                    sc.i = body_start + p + q;
                    RK::MlStr
                }
                None => {
                    sc.i = sc.s.len();
                    RK::UntermStr
                }
            };
        }
    }
    loop {
        match sc.byte(0) {
            Some(b'#') => {
                sc.i += 1;
                match sc.byte(0) {
                    Some(b'0'..=b'9' | b'_') => sc.take_while(|c| c.is_ascii_digit() || c == '_'),
                    Some(b'$') => {
                        sc.i += 1;
                        let before = sc.i;
                        sc.take_while(|c| c.is_ascii_hexdigit() || c == '_');
                        if sc.i == before {
                            return RK::UntermStr;
                        }
                    }
                    Some(b'%') => {
                        sc.i += 1;
                        let before = sc.i;
                        sc.take_while(|c| c == '0' || c == '1' || c == '_');
                        if sc.i == before {
                            return RK::UntermStr;
                        }
                    }
                    _ => return RK::UntermStr,
                }
            }
            Some(b'\'') => {
                sc.i += 1;
                loop {
                    match sc.peek() {
                        None => return RK::UntermStr,
                        Some('\n') | Some('\r') => return RK::UntermStr,
                        Some('\'') => {
                            sc.i += 1;
                            break;
                        }
                        Some(c) => sc.i += c.len_utf8(),
                    }
                }
            }
            _ => return RK::Str,
        }
    }
}

fn directive_is_if_expr(after_dollar: &str) -> bool {
    let name: String = after_dollar.chars().take_while(|c| c.is_ascii_alphanumeric() || *c == '_').collect();
    name.eq_ignore_ascii_case("if") || name.eq_ignore_ascii_case("elseif")
}

/// `{$IF ...}` expressions may contain nested comments, directives and strings; find the end.
fn directive_expr_end(src: &str, mut i: usize, paren_star: bool) -> Option<usize> {
    let b = src.as_bytes();
    // skip the directive name
    while i < b.len() && (b[i].is_ascii_alphanumeric() || b[i] == b'_') {
        i += 1;
    }
    loop {
        if i >= b.len() {
            return None;
        }
        if paren_star && b[i] == b'*' && b.get(i + 1) == Some(&b')') {
            return Some(i + 2);
        }
        if !paren_star && b[i] == b'}' {
            return Some(i + 1);
        }
        if b[i] == b'(' && b.get(i + 1) == Some(&b'*') {
            if b.get(i + 2) == Some(&b'$') {
                if directive_is_if_expr(&src[i + 3..]) {
                    i = directive_expr_end(src, i + 3, true)?;
                } else {
                    i = src[i + 3..].find("*)").map(|p| p + i + 3 + 2)?;
                }
            } else {
                // plain comment: unterminated comment swallows the rest
                match src[i + 2..].find("*)") {
                    Some(p) => i = p + i + 2 + 2,
                    None => i = trimmed_end(src),
                }
            }
            continue;
        }
        if b[i] == b'{' {
            if b.get(i + 1) == Some(&b'$') {
                if directive_is_if_expr(&src[i + 2..]) {
                    i = directive_expr_end(src, i + 2, false)?;
                } else {
                    i = src[i + 2..].find('}').map(|p| p + i + 2 + 1)?;
                }
            } else {
                match src[i + 1..].find('}') {
                    Some(p) => i = p + i + 1 + 1,
                    None => i = trimmed_end(src),
                }
            }
            continue;
        }
        if b[i] == b'\'' {
            let mut sc = Sc { s: src, b, i };
            scan_text(&mut sc);
            i = sc.i;
            continue;
        }
        if b[i] == b'/' && b.get(i + 1) == Some(&b'/') {
            while i < b.len() && b[i] != b'\n' && b[i] != b'\r' {
                i += 1;
            }
            continue;
        }
        i += 1;
    }
}

/// sequence of non-blank characters of a text
pub fn nonblank(s: &str) -> impl Iterator<Item = (usize, char)> + '_ {
    s.char_indices().filter(|(_, c)| !is_blank_char(*c))
}

pub fn count_nonblank(s: &str) -> usize {
    s.chars().filter(|c| !is_blank_char(*c)).count()
}

/// For every byte offset in `s` that starts a non-blank char, its ordinal; and reverse map.
pub struct NbIndex {
    /// byte offset of the k-th non-blank character
    pub offsets: Vec<u32>,
}
impl NbIndex {
    pub fn new(s: &str) -> Self {
        NbIndex { offsets: nonblank(s).map(|(i, _)| i as u32).collect() }
    }
    /// ordinal of the first non-blank char at or after byte offset `off`
    pub fn ordinal_at(&self, off: usize) -> usize {
        self.offsets.partition_point(|&o| (o as usize) < off)
    }
    pub fn offset_of(&self, ordinal: usize) -> Option<usize> {
        self.offsets.get(ordinal).map(|&o| o as usize)
    }
    pub fn len(&self) -> usize {
        self.offsets.len()
    }
}

#[cfg(test)]
mod tests {
    use super::*;
    fn kinds(s: &str) -> Vec<(RK, &str)> {
        scan(s).iter().map(|t| (t.kind, t.text(s))).collect()
    }
    #[test]
    fn basics() {
        assert_eq!(kinds("a:=1..2;"), vec![(RK::Word, "a"), (RK::Op, ":="), (RK::Number, "1"), (RK::Op, ".."), (RK::Number, "2"), (RK::Op, ";")]);
        assert_eq!(kinds("x := 1.5e-3 + $FF"), vec![(RK::Word, "x"), (RK::Op, ":="), (RK::Number, "1.5e-3"), (RK::Op, "+"), (RK::Number, "$FF")]);
        assert_eq!(kinds("'a''b'#13#10 // c\nfoo"), vec![(RK::Str, "'a''b'#13#10"), (RK::LineComment, "// c"), (RK::Word, "foo")]);
        assert_eq!(kinds("{$IF defined(a) {x} }b"), vec![(RK::Directive, "{$IF defined(a) {x} }"), (RK::Word, "b")]);
        assert_eq!(kinds("'''\n a\n '''.x"), vec![(RK::MlStr, "'''\n a\n '''"), (RK::Op, "."), (RK::Word, "x")]);
    }
}
