//! Shared types of the monitors: tiers, case results, violations.

use crate::cfg::Cfg;
use crate::seeds::Seed;
use serde::{Deserialize, Serialize};
use std::collections::BTreeMap;
use std::sync::Arc;

#[derive(Clone, Copy, Debug, PartialEq, Eq)]
pub enum Tier {
    Quick,
    Thorough,
}
impl Tier {
    pub fn name(&self) -> &'static str {
        match self {
            Tier::Quick => "quick",
            Tier::Thorough => "thorough",
        }
    }
    pub fn parse(s: &str) -> Tier {
        if s == "thorough" { Tier::Thorough } else { Tier::Quick }
    }
    pub fn pick<T>(&self, quick: T, thorough: T) -> T {
        match self {
            Tier::Quick => quick,
            Tier::Thorough => thorough,
        }
    }
}

#[derive(Clone, Debug, Serialize, Deserialize)]
pub struct Violation {
    pub property: String,
    /// signature of the failure class (matched against known_findings.txt)
    pub class: String,
    pub detail: String,
    pub input: String,
    pub cfg: Option<Cfg>,
    #[serde(default)]
    pub extra: serde_json::Value,
    #[serde(default)]
    pub case_index: u64,
}

#[derive(Default, Debug)]
pub struct CaseOut {
    /// executions of the code under observation
    pub evals: u64,
    /// hashes of the distinct non-trivial cases observed
    pub nontrivial: Vec<u64>,
    pub violations: Vec<Violation>,
    pub counters: BTreeMap<String, u64>,
    pub sample: Option<serde_json::Value>,
}

impl CaseOut {
    pub fn count(&mut self, key: &str) {
        *self.counters.entry(key.to_string()).or_insert(0) += 1;
    }
    pub fn add(&mut self, key: &str, n: u64) {
        *self.counters.entry(key.to_string()).or_insert(0) += n;
    }
    pub fn violate(&mut self, property: &str, class: &str, detail: String, input: &str, cfg: Option<&Cfg>) {
        self.violations.push(Violation {
            property: property.to_string(),
            class: class.to_string(),
            detail,
            input: input.to_string(),
            cfg: cfg.cloned(),
            extra: serde_json::Value::Null,
            case_index: 0,
        });
    }
}

pub struct Ctx {
    pub seed: u64,
    pub tier: Tier,
    pub seeds: Arc<Vec<Seed>>,
    pub work_dir: std::path::PathBuf,
    pub cli_bin: std::path::PathBuf,
}

pub trait Prop: Sync {
    fn id(&self) -> &'static str;
    /// number of cases of the tier (cases are indexed 0..n and sharded over workers)
    fn cases(&self, ctx: &Ctx) -> u64;
    fn run_case(&self, ctx: &Ctx, idx: u64) -> CaseOut;
    fn rule(&self) -> &'static str;
    /// minimum number of distinct non-trivial cases below which the run is inconclusive
    fn floor(&self, tier: Tier) -> u64 {
        tier.pick(50, 500)
    }
    /// CLI monitors spawn the real binary: they want fewer worker processes
    fn workers(&self) -> usize {
        16
    }
    fn assumptions(&self) -> Vec<String> {
        vec![]
    }
    /// does the property need the pasfmt binary built?
    fn needs_cli(&self) -> bool {
        false
    }
    /// verdicts that depend on aggregated counts (rates); called by the supervisor with the
    /// merged counters
    fn aggregate(&self, _counters: &BTreeMap<String, u64>) -> Vec<Violation> {
        vec![]
    }
    /// signature of a known finding for a confirmed hang, computed from the input of the call that
    /// did not return (None: report as `hang`)
    fn classify_hang(&self, _input: &str) -> Option<String> {
        None
    }
    /// run after all workers have finished, in the supervisor (sanitizer passes, CLI passes)
    fn post(&self, _ctx: &Ctx) -> Option<CaseOut> {
        None
    }
}

pub fn short(s: &str, n: usize) -> String {
    if s.len() <= n {
        return s.to_string();
    }
    let mut e = n;
    while !s.is_char_boundary(e) {
        e -= 1;
    }
    format!("{}…(+{} bytes)", &s[..e], s.len() - e)
}

/// boundary-safe excerpt of `s` around byte `off`
pub fn excerpt(s: &str, off: usize, radius: usize) -> String {
    let mut a = off.saturating_sub(radius).min(s.len());
    while !s.is_char_boundary(a) {
        a -= 1;
    }
    let mut b = (off + radius).min(s.len());
    while !s.is_char_boundary(b) {
        b += 1;
    }
    s[a..b].to_string()
}
