pub fn unused() {}
