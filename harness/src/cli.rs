//! Running the real `pasfmt` binary (built from the working tree with feature `verif`).

use std::io::{Read, Write};
use std::path::{Path, PathBuf};
use std::process::{Command, Stdio};
use std::time::{Duration, Instant};

pub struct RunOut {
    pub code: Option<i32>,
    pub signal: Option<i32>,
    pub stdout: Vec<u8>,
    pub stderr: Vec<u8>,
    pub timed_out: bool,
}

impl RunOut {
    pub fn ok(&self) -> bool {
        self.code == Some(0)
    }
    pub fn stderr_text(&self) -> String {
        String::from_utf8_lossy(&self.stderr).to_string()
    }
}

pub struct Invocation<'a> {
    pub bin: &'a Path,
    pub args: Vec<String>,
    pub cwd: &'a Path,
    pub stdin: Option<Vec<u8>>,
    pub env: Vec<(String, String)>,
    /// run as the unprivileged user `nobody` (file modes are ignored for root)
    pub as_nobody: bool,
}

pub fn run(inv: Invocation) -> RunOut {
    let mut cmd = if inv.as_nobody {
        let mut c = Command::new("setpriv");
        c.args(["--reuid=65534", "--regid=65534", "--clear-groups"]).arg(inv.bin);
        c
    } else {
        Command::new(inv.bin)
    };
    cmd.args(&inv.args).current_dir(inv.cwd).stdout(Stdio::piped()).stderr(Stdio::piped());
    cmd.stdin(if inv.stdin.is_some() { Stdio::piped() } else { Stdio::null() });
    cmd.env_remove("RAYON_NUM_THREADS");
    for (k, v) in &inv.env {
        cmd.env(k, v);
    }
    let mut child = match cmd.spawn() {
        Ok(c) => c,
        Err(e) => {
            return RunOut { code: None, signal: None, stdout: vec![], stderr: format!("spawn failed: {e}").into_bytes(), timed_out: false };
        }
    };
    let stdin_thread = inv.stdin.map(|data| {
        let mut si = child.stdin.take().unwrap();
        std::thread::spawn(move || {
            let _ = si.write_all(&data);
        })
    });
    let mut so = child.stdout.take().unwrap();
    let mut se = child.stderr.take().unwrap();
    let t_out = std::thread::spawn(move || {
        let mut v = vec![];
        let _ = so.read_to_end(&mut v);
        v
    });
    let t_err = std::thread::spawn(move || {
        let mut v = vec![];
        let _ = se.read_to_end(&mut v);
        v
    });
    let t0 = Instant::now();
    let mut timed_out = false;
    let status = loop {
        match child.try_wait() {
            Ok(Some(st)) => break Some(st),
            Ok(None) => {
                if t0.elapsed() > Duration::from_secs(60) {
                    let _ = child.kill();
                    let _ = child.wait();
                    timed_out = true;
                    break None;
                }
                std::thread::sleep(Duration::from_millis(2));
            }
            Err(_) => break None,
        }
    };
    if let Some(t) = stdin_thread {
        let _ = t.join();
    }
    let stdout = t_out.join().unwrap_or_default();
    let stderr = t_err.join().unwrap_or_default();
    use std::os::unix::process::ExitStatusExt;
    RunOut { code: status.and_then(|s| s.code()), signal: status.and_then(|s| s.signal()), stdout, stderr, timed_out }
}

pub fn simple(bin: &Path, cwd: &Path, args: &[&str], stdin: Option<&[u8]>) -> RunOut {
    run(Invocation { bin, args: args.iter().map(|s| s.to_string()).collect(), cwd, stdin: stdin.map(|s| s.to_vec()), env: vec![], as_nobody: false })
}

/// scratch directory for one case, removed on drop
pub struct Scratch {
    pub path: PathBuf,
}
impl Scratch {
    pub fn new(base: &Path, tag: &str) -> Scratch {
        let path = base.join(format!("{tag}-{}-{:x}", std::process::id(), crate::rng::hash_str(&format!("{tag}{:?}", Instant::now()))));
        let _ = std::fs::remove_dir_all(&path);
        std::fs::create_dir_all(&path).expect("create scratch dir");
        // world-accessible so that the `nobody` runs can traverse it
        let _ = set_mode(&path, 0o755);
        Scratch { path }
    }
}
impl Drop for Scratch {
    fn drop(&mut self) {
        // restore modes so that removal works
        let _ = Command::new("chmod").arg("-R").arg("u+rwx").arg(&self.path).output();
        let _ = std::fs::remove_dir_all(&self.path);
    }
}

pub fn set_mode(p: &Path, mode: u32) -> std::io::Result<()> {
    use std::os::unix::fs::PermissionsExt;
    std::fs::set_permissions(p, std::fs::Permissions::from_mode(mode))
}

#[derive(Clone, Debug, PartialEq, Eq)]
pub struct Stat {
    pub len: u64,
    pub mtime_ns: i128,
    pub ino: u64,
}

pub fn stat(p: &Path) -> Option<Stat> {
    use std::os::unix::fs::MetadataExt;
    let m = std::fs::metadata(p).ok()?;
    Some(Stat { len: m.len(), mtime_ns: m.mtime() as i128 * 1_000_000_000 + m.mtime_nsec() as i128, ino: m.ino() })
}

/// make sure a later write gets a different mtime
pub fn age_file(p: &Path) {
    let _ = Command::new("touch").args(["-d", "2001-01-01 00:00:00"]).arg(p).output();
}
