//! Small deterministic PRNG (splitmix64 seeding + xorshift64*), splittable by label.

#[derive(Clone, Debug)]
pub struct Rng(u64);

fn splitmix(mut x: u64) -> u64 {
    x = x.wrapping_add(0x9E3779B97F4A7C15);
    let mut z = x;
    z = (z ^ (z >> 30)).wrapping_mul(0xBF58476D1CE4E5B9);
    z = (z ^ (z >> 27)).wrapping_mul(0x94D049BB133111EB);
    z ^ (z >> 31)
}

pub fn hash_str(s: &str) -> u64 {
    hash_bytes(s.as_bytes())
}

pub fn hash_bytes(b: &[u8]) -> u64 {
    let mut h: u64 = 0xcbf29ce484222325;
    for &c in b {
        h ^= c as u64;
        h = h.wrapping_mul(0x100000001b3);
    }
    splitmix(h)
}

pub fn hash_combine(a: u64, b: u64) -> u64 {
    splitmix(a ^ b.rotate_left(23).wrapping_mul(0x9E3779B97F4A7C15))
}

impl Rng {
    pub fn new(seed: u64) -> Self {
        let s = splitmix(seed);
        Rng(if s == 0 { 0x1234567 } else { s })
    }
    /// Derive an independent stream from (seed, label, index).
    pub fn derive(seed: u64, label: &str, index: u64) -> Self {
        Rng::new(hash_combine(hash_combine(seed, hash_str(label)), index))
    }
    pub fn split(&mut self, label: &str) -> Rng {
        let s = self.next_u64();
        Rng::new(hash_combine(s, hash_str(label)))
    }
    pub fn next_u64(&mut self) -> u64 {
        let mut x = self.0;
        x ^= x >> 12;
        x ^= x << 25;
        x ^= x >> 27;
        self.0 = x;
        x.wrapping_mul(0x2545F4914F6CDD1D)
    }
    /// uniform in 0..n (n > 0)
    pub fn below(&mut self, n: usize) -> usize {
        if n <= 1 {
            return 0;
        }
        (self.next_u64() % n as u64) as usize
    }
    /// inclusive range
    pub fn range(&mut self, lo: usize, hi: usize) -> usize {
        if hi <= lo {
            return lo;
        }
        lo + self.below(hi - lo + 1)
    }
    pub fn chance(&mut self, num: u32, den: u32) -> bool {
        (self.next_u64() % den as u64) < num as u64
    }
    pub fn bool(&mut self) -> bool {
        self.next_u64() & 1 == 1
    }
    pub fn pick<'a, T>(&mut self, xs: &'a [T]) -> &'a T {
        &xs[self.below(xs.len())]
    }
    pub fn pick_str<'a>(&mut self, xs: &[&'a str]) -> &'a str {
        xs[self.below(xs.len())]
    }
    pub fn pick_weighted<'a, T>(&mut self, xs: &'a [(u32, T)]) -> &'a T {
        let total: u32 = xs.iter().map(|x| x.0).sum();
        let mut r = (self.next_u64() % total as u64) as u32;
        for (w, x) in xs {
            if r < *w {
                return x;
            }
            r -= *w;
        }
        &xs[xs.len() - 1].1
    }
    pub fn shuffle<T>(&mut self, xs: &mut [T]) {
        for i in (1..xs.len()).rev() {
            let j = self.below(i + 1);
            xs.swap(i, j);
        }
    }
}
