//! One observed execution of the real formatter: output or panic, logical steps, hook events,
//! captured log records, relocated cursors.

use crate::cfg::Cfg;
use pasfmt_core::prelude::*;
use pasfmt_core::verif::{self, Event};
use std::cell::RefCell;
use std::collections::HashMap;
use std::panic::{catch_unwind, AssertUnwindSafe};

#[derive(Clone, Debug)]
pub struct PanicInfo {
    pub message: String,
    pub location: String,
    pub step_limit: bool,
}

#[derive(Clone, Debug)]
pub struct Obs {
    pub out: Result<String, PanicInfo>,
    pub steps: u64,
    pub events: Vec<Event>,
    pub logs: Vec<(log::Level, String)>,
    pub cursors: Vec<u32>,
}

impl Obs {
    pub fn fallbacks(&self) -> impl Iterator<Item = (usize, usize, bool)> + '_ {
        self.events.iter().filter_map(|e| match e {
            Event::WrapFallback { first_token, last_token, iteration_limit, .. } => Some((*first_token, *last_token, *iteration_limit)),
            _ => None,
        })
    }
    pub fn has_fallback(&self) -> bool {
        self.fallbacks().next().is_some()
    }
    pub fn parser_passes(&self) -> usize {
        self.events.iter().filter(|e| matches!(e, Event::ParserPass { .. })).count()
    }
    pub fn reflow_cache_hit(&self) -> bool {
        self.events.iter().any(|e| matches!(e, Event::ChildCacheHitDuringReflow { .. }))
    }
    pub fn reflowed(&self) -> bool {
        self.events.iter().any(|e| matches!(e, Event::Reflow { .. }))
    }
    pub fn safety_net_fired(&self) -> bool {
        self.logs.iter().any(|(_, m)| m.starts_with("Fixed missing line break"))
    }
}

thread_local! {
    static LAST_PANIC: RefCell<Option<(String, String)>> = const { RefCell::new(None) };
    static LOGS: RefCell<Vec<(log::Level, String)>> = const { RefCell::new(Vec::new()) };
    static FORMATTERS: RefCell<HashMap<Cfg, std::rc::Rc<Formatter>>> = RefCell::new(HashMap::new());
}

pub static LAST_PANIC_GLOBAL: std::sync::Mutex<String> = std::sync::Mutex::new(String::new());

struct Bounded {
    buf: String,
    cap: usize,
}
impl std::fmt::Write for Bounded {
    fn write_str(&mut self, s: &str) -> std::fmt::Result {
        if self.buf.len() >= self.cap {
            return Err(std::fmt::Error);
        }
        let room = self.cap - self.buf.len();
        if s.len() <= room {
            self.buf.push_str(s);
            Ok(())
        } else {
            let mut n = room;
            while !s.is_char_boundary(n) {
                n -= 1;
            }
            self.buf.push_str(&s[..n]);
            Err(std::fmt::Error)
        }
    }
}

struct CapLog;
impl log::Log for CapLog {
    fn enabled(&self, m: &log::Metadata) -> bool {
        m.level() <= log::Level::Warn
    }
    fn log(&self, r: &log::Record) {
        if r.level() <= log::Level::Warn {
            let mut b = Bounded { buf: String::new(), cap: 100 };
            let _ = std::fmt::write(&mut b, *r.args());
            LOGS.with(|l| {
                let mut l = l.borrow_mut();
                if l.len() < 64 {
                    l.push((r.level(), b.buf));
                }
            });
        }
    }
    fn flush(&self) {}
}
static CAPLOG: CapLog = CapLog;

pub fn init() {
    let _ = log::set_logger(&CAPLOG);
    log::set_max_level(log::LevelFilter::Warn);
    std::panic::set_hook(Box::new(|info| {
        let msg = if let Some(s) = info.payload().downcast_ref::<&str>() {
            s.to_string()
        } else if let Some(s) = info.payload().downcast_ref::<String>() {
            s.clone()
        } else {
            "<non-string panic payload>".to_string()
        };
        let loc = info.location().map(|l| format!("{}:{}", l.file(), l.line())).unwrap_or_default();
        if let Ok(mut g) = LAST_PANIC_GLOBAL.lock() {
            *g = format!("{msg} at {loc}");
        }
        LAST_PANIC.with(|p| *p.borrow_mut() = Some((msg, loc)));
    }));
}

pub fn formatter(cfg: &Cfg) -> std::rc::Rc<Formatter> {
    FORMATTERS.with(|f| {
        let mut f = f.borrow_mut();
        if f.len() > 4096 {
            f.clear();
        }
        f.entry(cfg.clone()).or_insert_with(|| std::rc::Rc::new(cfg.formatter())).clone()
    })
}

pub fn take_panic() -> PanicInfo {
    let (message, location) = LAST_PANIC.with(|p| p.borrow_mut().take()).unwrap_or_default();
    let step_limit = message.contains(verif::STEP_LIMIT_PANIC);
    PanicInfo { message, location, step_limit }
}

/// default logical step budget for an input with `n_bytes` bytes (tokens <= bytes):
/// generous quadratic bound, see DESIGN C04
pub fn step_budget(n_bytes: usize) -> u64 {
    let n = n_bytes as u64 + 16;
    (2_000 * n * n).min(4_000_000_000).max(50_000_000)
}

/// `VERIF_TRACE_INPUTS=<file>` (set by the supervisor for solo confirmations): every observed call
/// appends its input and configuration before it starts, so that the last line of the file is the
/// call that did not return when the process is killed
fn trace_path() -> Option<&'static std::path::PathBuf> {
    static PATH: std::sync::OnceLock<Option<std::path::PathBuf>> = std::sync::OnceLock::new();
    PATH.get_or_init(|| std::env::var_os("VERIF_TRACE_INPUTS").map(std::path::PathBuf::from)).as_ref()
}
fn trace_input(cfg: &Cfg, input: &str, cursors: &[u32]) {
    let Some(path) = trace_path() else { return };
    use std::io::Write;
    if let Ok(mut f) = std::fs::OpenOptions::new().create(true).append(true).open(path) {
        let _ = writeln!(f, "{}", serde_json::json!({"input": input, "cfg": cfg, "cursors": cursors}));
    }
}
/// the observed call returned (or panicked): whatever hangs after this line is not the formatter
fn trace_returned() {
    let Some(path) = trace_path() else { return };
    use std::io::Write;
    if let Ok(mut f) = std::fs::OpenOptions::new().create(true).append(true).open(path) {
        let _ = writeln!(f, "{{\"returned\":true}}");
    }
}

pub fn format_obs(cfg: &Cfg, input: &str, cursors: &[u32], step_limit: u64) -> Obs {
    trace_input(cfg, input, cursors);
    let f = formatter(cfg);
    let mut cur: Vec<Cursor> = cursors.iter().map(|c| Cursor(*c)).collect();
    LOGS.with(|l| l.borrow_mut().clear());
    verif::begin(step_limit, true);
    let r = catch_unwind(AssertUnwindSafe(|| f.format(input, FileOptions::new().with_cursors(&mut cur))));
    trace_returned();
    let (steps, events) = verif::end();
    let logs = LOGS.with(|l| std::mem::take(&mut *l.borrow_mut()));
    let out = match r {
        Ok(s) => Ok(s),
        Err(_) => Err(take_panic()),
    };
    Obs { out, steps, events, logs, cursors: cur.iter().map(|c| c.0).collect() }
}

/// plain format with the default soft budget; None when the call panicked or exceeded it
pub fn format_simple(cfg: &Cfg, input: &str) -> Obs {
    format_obs(cfg, input, &[], SOFT_STEP_LIMIT)
}

/// soft budget used by the behavioural monitors (not C04): calls that need more are skipped as slow
pub const SOFT_STEP_LIMIT: u64 = 30_000_000;

pub fn lex(input: &str) -> Result<Vec<RawToken<'_>>, PanicInfo> {
    verif::begin(u64::MAX, false);
    let r = catch_unwind(AssertUnwindSafe(|| DelphiLexer {}.lex(input)));
    verif::end();
    r.map_err(|_| take_panic())
}

pub struct Parsed<'a> {
    pub lines: Vec<LogicalLine>,
    pub tokens: Vec<Token<'a>>,
    pub passes: usize,
}

pub fn lex_parse(input: &str, step_limit: u64) -> Result<Parsed<'_>, PanicInfo> {
    verif::begin(step_limit, true);
    let r = catch_unwind(AssertUnwindSafe(|| {
        let toks = DelphiLexer {}.lex(input);
        DelphiLogicalLineParser {}.parse(toks)
    }));
    let (_, events) = verif::end();
    match r {
        Ok((lines, tokens)) => Ok(Parsed { lines, tokens, passes: events.iter().filter(|e| matches!(e, Event::ParserPass { .. })).count() }),
        Err(_) => Err(take_panic()),
    }
}

/// CPU time consumed by the calling thread, in milliseconds
pub fn thread_cpu_ms() -> f64 {
    let mut ts = libc::timespec { tv_sec: 0, tv_nsec: 0 };
    unsafe { libc::clock_gettime(libc::CLOCK_THREAD_CPUTIME_ID, &mut ts) };
    ts.tv_sec as f64 * 1000.0 + ts.tv_nsec as f64 / 1e6
}
