//! Oracles that are independent of pasfmt's own lexer/parser.

use crate::refscan::{self, is_blank_char, RTok, RK};

fn context(s: &str, byte: usize, radius: usize) -> String {
    let mut a = byte.saturating_sub(radius);
    while !s.is_char_boundary(a) {
        a -= 1;
    }
    let mut b = (byte + radius).min(s.len());
    while !s.is_char_boundary(b) {
        b += 1;
    }
    format!("{:?}", &s[a..b])
}

/// C01: same non-blank character sequence; case differences only inside keyword-capable words
/// or directive names. Returns the number of characters whose case changed.
pub fn check_preservation(input: &str, output: &str) -> Result<usize, String> {
    let mut ia = refscan::nonblank(input);
    let mut ib = refscan::nonblank(output);
    let mut case_diffs: Vec<usize> = vec![];
    let mut k = 0usize;
    loop {
        match (ia.next(), ib.next()) {
            (None, None) => break,
            (Some((oa, ca)), Some((ob, cb))) => {
                if ca != cb {
                    if ca.is_ascii() && cb.is_ascii() && ca.eq_ignore_ascii_case(&cb) {
                        case_diffs.push(oa);
                    } else {
                        return Err(format!(
                            "non-blank character #{k} differs: input {:?} at byte {oa} (…{}…) vs output {:?} at byte {ob} (…{}…)",
                            ca,
                            context(input, oa, 30),
                            cb,
                            context(output, ob, 30)
                        ));
                    }
                }
                k += 1;
            }
            (Some((oa, ca)), None) => {
                return Err(format!("output lost characters: input still has {:?} at byte {oa} (…{}…) after {k} matching non-blank characters", ca, context(input, oa, 30)));
            }
            (None, Some((ob, cb))) => {
                return Err(format!("output has extra characters: {:?} at byte {ob} (…{}…) after {k} matching non-blank characters", cb, context(output, ob, 30)));
            }
        }
    }
    if case_diffs.is_empty() {
        return Ok(0);
    }
    let toks = refscan::scan(input);
    for &off in &case_diffs {
        let ti = toks.partition_point(|t| t.end <= off);
        let Some(t) = toks.get(ti).filter(|t| t.start <= off) else {
            return Err(format!("letter case changed at input byte {off} outside any token (…{}…)", context(input, off, 30)));
        };
        let ok = match t.kind {
            RK::Word => refscan::is_keyword_capable(t.text(input)),
            RK::Directive => {
                let txt = t.text(input);
                let head = if txt.starts_with("{$") { 2 } else { 3 };
                let name_len = txt[head.min(txt.len())..].bytes().take_while(|b| b.is_ascii_alphanumeric() || matches!(b, b'_' | b'+' | b'-' | b',')).count();
                off >= t.start + head && off < t.start + head + name_len
            }
            _ => false,
        };
        if !ok {
            return Err(format!(
                "letter case changed at input byte {off} inside {:?} token {:?}, which is neither a keyword-capable word nor a directive name",
                t.kind,
                crate::prop::short(t.text(input), 60)
            ));
        }
    }
    Ok(case_diffs.len())
}

#[derive(Clone, Debug)]
pub struct WsIssue {
    pub rule: &'static str,
    /// byte offset in the output where the offending gap starts
    pub at: usize,
    /// index of the reference token that follows the gap (tokens.len() for the tail)
    pub next_tok: usize,
    pub detail: String,
}

/// Which output tokens are exempt from whitespace rules: tokens inside `pasfmt off` regions and
/// asm instruction lines. Computed with the reference scanner on the *output*.
pub fn verbatim_mask(out: &str, toks: &[RTok]) -> Vec<bool> {
    let mut mask = vec![false; toks.len()];
    let mut off = false;
    for (i, t) in toks.iter().enumerate() {
        let mut this = off || t.in_asm;
        if matches!(t.kind, RK::LineComment | RK::BlockComment) {
            if let Some(on) = toggle_of(t.text(out)) {
                // a toggle comment is itself always kept verbatim, whatever the current state
                this = true;
                off = !on;
            }
        }
        mask[i] = this;
    }
    mask
}

/// Some(true) for a `pasfmt on` comment, Some(false) for `pasfmt off`
pub fn toggle_of(comment: &str) -> Option<bool> {
    let body = if let Some(r) = comment.strip_prefix("//") {
        r
    } else if let Some(r) = comment.strip_prefix('{') {
        r.strip_suffix('}').unwrap_or(r)
    } else if let Some(r) = comment.strip_prefix("(*") {
        r.strip_suffix("*)").unwrap_or(r)
    } else {
        return None;
    };
    // blanks, the word `pasfmt`, at least one blank, then the exact word on/off (a word is a
    // maximal run of letters and digits), case-insensitively
    let body = body.trim_start_matches(|c: char| c.is_ascii_whitespace());
    if body.len() < 6 || !body.is_char_boundary(6) || !body[..6].eq_ignore_ascii_case("pasfmt") {
        return None;
    }
    let rest = &body[6..];
    let after_ws = rest.trim_start_matches(|c: char| c.is_ascii_whitespace());
    if after_ws.len() == rest.len() {
        return None;
    }
    let word: String = after_ws.chars().take_while(|c| c.is_ascii_alphanumeric()).collect();
    if word.eq_ignore_ascii_case("on") {
        Some(true)
    } else if word.eq_ignore_ascii_case("off") {
        Some(false)
    } else {
        None
    }
}

pub struct WsParams<'a> {
    pub use_tabs: bool,
    pub tab_width: u8,
    pub nl: &'a str,
    /// check the end-of-file clause (well-formed input only)
    pub check_eof: bool,
}

/// C08 on the gaps between reference tokens of the output.
pub fn check_whitespace(out: &str, p: &WsParams) -> Vec<WsIssue> {
    let toks = refscan::scan(out);
    let mask = verbatim_mask(out, &toks);
    let mut issues = vec![];
    let mut pos = 0usize;
    let n = toks.len();
    for gi in 0..=n {
        let (gs, ge) = if gi < n { (pos, toks[gi].start) } else { (pos, out.len()) };
        let gap = &out[gs..ge];
        if gi < n {
            pos = toks[gi].end;
        }
        // gaps touching verbatim material are exempt (the region keeps its own leading blanks)
        let prev_verbatim = gi > 0 && mask[gi - 1];
        let next_verbatim = gi < n && mask[gi];
        if next_verbatim || (prev_verbatim && gi == n) {
            continue;
        }
        if gap.is_empty() {
            continue;
        }
        let has_break = gap.contains('\n') || gap.contains('\r');
        // a line comment runs to the end of its line: blanks at its end are the line's trailing blanks
        // (the formatter trims them; comments inside verbatim regions are exempt)
        if gi > 0 && !prev_verbatim && toks[gi - 1].kind == refscan::RK::LineComment {
            let t = toks[gi - 1].text(out);
            if t.ends_with(' ') || t.ends_with('\t') {
                issues.push(WsIssue { rule: "trailing-blanks", at: toks[gi - 1].end, next_tok: gi, detail: format!("line comment ends in blanks: {:?}", t.chars().rev().take(12).collect::<Vec<_>>().into_iter().rev().collect::<String>()) });
            }
        }
        let mut push = |rule: &'static str, detail: String| issues.push(WsIssue { rule, at: gs, next_tok: gi, detail });
        if !has_break {
            if gi == n {
                // tail without line break: trailing blanks at end of file
                push("trailing-blanks", format!("file ends in blanks {:?}", gap));
            } else if gi == 0 {
                // leading blanks of the first line = indentation; checked below
                check_indent(gap, p, &mut push);
            } else {
                if gap.contains('\t') {
                    push("tab-between-tokens", format!("gap {:?}", gap));
                } else if gap != " " {
                    push("multiple-spaces", format!("gap {:?}", gap));
                }
            }
            continue;
        }
        // split the gap into lines
        let segs: Vec<&str> = split_breaks(gap);
        // segs[0]: rest of the previous token's line; must be empty (no trailing blanks)
        if !segs[0].is_empty() && gi > 0 {
            push("trailing-blanks", format!("line ends in blanks {:?} before break", segs[0]));
        }
        if gi == 0 {
            push("blank-first-line", format!("file starts with a line break: {:?}", gap));
        }
        let breaks = segs.len() - 1;
        // middle segments are blank lines: must be completely empty
        for s in &segs[1..segs.len() - 1] {
            if !s.is_empty() {
                push("trailing-blanks", format!("blank line contains blanks {:?}", s));
            }
        }
        if gi > 0 && gi < n && breaks > 2 {
            push("consecutive-blank-lines", format!("{} consecutive line breaks", breaks));
        }
        if gi == n {
            if !segs[segs.len() - 1].is_empty() {
                push("trailing-blanks", format!("file ends in blanks {:?}", segs[segs.len() - 1]));
            }
            if p.check_eof && breaks != 1 {
                push("eof-terminator", format!("file ends with {} line terminators", breaks));
            }
        } else {
            let last = segs[segs.len() - 1];
            check_indent(last, p, &mut push);
        }
    }
    if p.check_eof && n > 0 {
        let tail = &out[toks[n - 1].end..];
        if tail.is_empty() && !mask[n - 1] {
            issues.push(WsIssue { rule: "eof-terminator", at: out.len(), next_tok: n, detail: "file does not end with a line terminator".into() });
        }
    }
    issues
}

fn check_indent(ws: &str, p: &WsParams, push: &mut impl FnMut(&'static str, String)) {
    if ws.is_empty() {
        return;
    }
    if p.use_tabs {
        if !ws.chars().all(|c| c == '\t') {
            push("indent-unit", format!("indentation {:?} is not made of tabs only", ws));
        }
    } else if !ws.chars().all(|c| c == ' ') {
        push("indent-unit", format!("indentation {:?} is not made of spaces only", ws));
    } else if p.tab_width == 0 {
        push("indent-unit", format!("indentation {:?} with tab_width=0", ws));
    } else if ws.len() % p.tab_width as usize != 0 {
        push("indent-unit", format!("indentation of {} spaces is not a multiple of tab_width={}", ws.len(), p.tab_width));
    }
}

/// split on CRLF / LF / lone CR
pub fn split_breaks(s: &str) -> Vec<&str> {
    let b = s.as_bytes();
    let mut v = vec![];
    let mut start = 0;
    let mut i = 0;
    while i < b.len() {
        if b[i] == b'\r' && b.get(i + 1) == Some(&b'\n') {
            v.push(&s[start..i]);
            i += 2;
            start = i;
        } else if b[i] == b'\n' || b[i] == b'\r' {
            v.push(&s[start..i]);
            i += 1;
            start = i;
        } else {
            i += 1;
        }
    }
    v.push(&s[start..]);
    v
}

/// leading whitespace and "is first on its line" for a byte offset in `s`
pub fn line_lead(s: &str, off: usize) -> (&str, bool) {
    let ls = s[..off].rfind(['\n', '\r']).map(|p| p + 1).unwrap_or(0);
    let lead = &s[ls..off];
    let first = lead.chars().all(is_blank_char);
    if first {
        (lead, true)
    } else {
        let n: usize = lead.chars().take_while(|c| is_blank_char(*c)).map(|c| c.len_utf8()).sum();
        (&lead[..n], false)
    }
}

/// visual width of a line with tabs expanded to `tab` columns each (no tab stops: pasfmt only
/// emits tabs as leading indentation)
pub fn line_width(line: &str, tab: usize) -> usize {
    line.chars().map(|c| if c == '\t' { tab } else { 1 }).sum()
}

pub fn max_line_width(s: &str, tab: usize) -> usize {
    split_breaks(s).iter().map(|l| line_width(l, tab)).max().unwrap_or(0)
}

pub fn line_count(s: &str) -> usize {
    split_breaks(s).len()
}
