//! C19 — configuration precedence and rejection.

use crate::cfg::Cfg;
use crate::cli::{self, Invocation, Scratch};
use crate::prop::{short, CaseOut, Ctx, Prop, Tier};
use crate::rng::{self, Rng};
use serde_json::json;
use std::collections::BTreeMap;

pub struct C19;

/// probe text whose formatting distinguishes every option value
const PROBE: &str = "procedure Foo;\nbegin\n  if AAAAAAAAAA then begin BBBBBBBBBB := CCCCCCCCCC + DDDDDDDDDD + EEEEEEEEEE + FFFFFFFFFF + GGGGGGGGGG; end;\n  S := '''\n  text\n  ''';\nend;\n";

type Opts = BTreeMap<&'static str, String>;

fn rand_value(rng: &mut Rng, key: &str) -> String {
    match key {
        "wrap_column" => rng.pick(&[20u32, 40, 60, 80, 100, 120, 200]).to_string(),
        "begin_style" => (*rng.pick(&["auto", "always_wrap"])).to_string(),
        "format_multiline_strings" | "use_tabs" => rng.bool().to_string(),
        "tab_width" => rng.pick(&[1u8, 2, 3, 4, 8]).to_string(),
        "continuation_indents" => rng.pick(&[1u8, 2, 3]).to_string(),
        "line_ending" => (*rng.pick(&["lf", "crlf"])).to_string(),
        _ => unreachable!(),
    }
}
const KEYS: &[&str] = &["wrap_column", "begin_style", "format_multiline_strings", "use_tabs", "tab_width", "continuation_indents", "line_ending"];

fn toml_of(o: &Opts) -> String {
    let mut s = String::new();
    for (k, v) in o {
        let quoted = matches!(*k, "begin_style" | "line_ending");
        if quoted {
            s.push_str(&format!("{k} = \"{v}\"\n"));
        } else {
            s.push_str(&format!("{k} = {v}\n"));
        }
    }
    s
}

fn defaults() -> Opts {
    let mut o = Opts::new();
    o.insert("wrap_column", "120".into());
    o.insert("begin_style", "auto".into());
    o.insert("format_multiline_strings", "true".into());
    o.insert("use_tabs", "false".into());
    o.insert("tab_width", "2".into());
    o.insert("continuation_indents", "2".into());
    o.insert("line_ending", "lf".into());
    o
}

fn to_cfg(o: &Opts) -> Cfg {
    Cfg {
        wrap_column: o["wrap_column"].parse().unwrap(),
        always_wrap_begin: o["begin_style"] == "always_wrap",
        format_multiline_strings: o["format_multiline_strings"] == "true",
        use_tabs: o["use_tabs"] == "true",
        tab_width: o["tab_width"].parse().unwrap(),
        continuation_indents: o["continuation_indents"].parse().unwrap(),
        crlf: o["line_ending"] == "crlf",
    }
}

impl Prop for C19 {
    fn post(&self, ctx: &Ctx) -> Option<CaseOut> {
        // thorough tier: the same workload with the real binary under valgrind memcheck
        if ctx.tier != Tier::Thorough {
            return None;
        }
        let mut out = CaseOut::default();
        crate::sanit::memcheck_cli(ctx, "C19", &mut out);
        Some(out)
    }
    fn id(&self) -> &'static str {
        "C19"
    }
    fn needs_cli(&self) -> bool {
        true
    }
    fn cases(&self, ctx: &Ctx) -> u64 {
        ctx.tier.pick(4000, 30_000)
    }
    fn rule(&self) -> &'static str {
        "real binary run from nested working directories: depth 0-6 (one case in eight: 10-48, files only near the top) between the working directory and the directory holding pasfmt.toml, several pasfmt.toml on the path (nearest must win), --config-file (existing, missing, a directory), random subsets of the 7 options split between file and -C, repeated -C for one key, documented values plus invalid ones (unknown key in file or -C, ill-typed values in file or -C, out-of-range tab_width, bad enum, nested table, TOML syntax error, a discovered or explicitly named file that is not UTF-8); a 20-line reference resolver (defaults, then nearest file or --config-file, then -C in order) predicts the effective configuration; oracle: output equals the output of the same binary given the predicted configuration entirely through -C from an empty directory; rejections: non-zero exit, no file modified. Non-trivial: >= 2 layers set the same key to different values; distinct by layer contents."
    }
    fn floor(&self, tier: Tier) -> u64 {
        tier.pick(100, 2_000)
    }
    fn run_case(&self, ctx: &Ctx, idx: u64) -> CaseOut {
        let mut out = CaseOut::default();
        let mut rng = Rng::derive(ctx.seed, "C19", idx);
        let scratch = Scratch::new(&ctx.work_dir, "c19");
        let root = scratch.path.as_path();
        // directory chain root/d1/d2/.../dn ; cwd = deepest
        // one case in eight walks a long way up: the only files are near the top of a 10-48 level chain
        let deep = rng.chance(1, 8);
        let depth = if deep { rng.range(10, 48) } else { rng.range(0, 6) };
        if deep {
            out.count("deep_chain");
        }
        let mut dirs = vec![root.to_path_buf()];
        for i in 0..depth {
            let d = dirs.last().unwrap().join(format!("d{i}"));
            std::fs::create_dir_all(&d).unwrap();
            dirs.push(d);
        }
        let cwd = dirs.last().unwrap().clone();
        // config files at random levels
        let mut file_layers: Vec<(usize, Opts)> = vec![];
        for (lvl, d) in dirs.iter().enumerate() {
            if (deep && lvl > 3 && rng.chance(1, 60)) || (!(deep && lvl > 3) && rng.chance(2, 5)) {
                let mut o = Opts::new();
                for k in KEYS {
                    if rng.chance(2, 5) {
                        o.insert(k, rand_value(&mut rng, k));
                    }
                }
                std::fs::write(d.join("pasfmt.toml"), toml_of(&o)).unwrap();
                file_layers.push((lvl, o));
            }
        }
        // decoy: pasfmt.toml as a *directory* is not a file and must be skipped
        let mut decoy = false;
        if rng.chance(1, 10) && !dirs[dirs.len() - 1].join("pasfmt.toml").exists() {
            std::fs::create_dir_all(cwd.join("pasfmt.toml")).unwrap();
            out.count("decoy_directory_named_pasfmt_toml");
            decoy = true;
        }
        // --config-file
        let mut cli_args: Vec<String> = vec![];
        let explicit = if rng.chance(1, 4) {
            let mut o = Opts::new();
            for k in KEYS {
                if rng.chance(1, 2) {
                    o.insert(k, rand_value(&mut rng, k));
                }
            }
            let p = root.join("explicit.toml");
            std::fs::write(&p, toml_of(&o)).unwrap();
            cli_args.push("--config-file".into());
            cli_args.push(p.to_string_lossy().to_string());
            Some(o)
        } else {
            None
        };
        // -C overrides (possibly repeated)
        let mut overrides: Vec<(&'static str, String)> = vec![];
        for k in KEYS {
            if rng.chance(1, 3) {
                overrides.push((k, rand_value(&mut rng, k)));
                if rng.chance(1, 4) {
                    overrides.push((k, rand_value(&mut rng, k)));
                }
            }
        }
        rng.shuffle(&mut overrides);
        for (k, v) in &overrides {
            cli_args.push("-C".into());
            cli_args.push(format!("{k}={v}"));
        }
        // ---- reference resolver
        let mut eff = defaults();
        // native line ending on this platform is lf (already the default above)
        let file_layer: Option<&Opts> = match &explicit {
            Some(o) => Some(o),
            None => file_layers.iter().rev().map(|(_, o)| o).next(),
        };
        let mut layers_setting: BTreeMap<&str, Vec<String>> = BTreeMap::new();
        if let Some(o) = file_layer {
            for (k, v) in o {
                eff.insert(k, v.clone());
                layers_setting.entry(k).or_default().push(v.clone());
            }
        }
        for (k, v) in &overrides {
            eff.insert(k, v.clone());
            layers_setting.entry(k).or_default().push(v.clone());
        }
        let invalid = idx % 5 == 4;
        if invalid {
            // ---- rejection
            let f = cwd.join("t.pas");
            std::fs::write(&f, PROBE.replace("  ", "     ")).unwrap();
            let original = std::fs::read(&f).unwrap();
            cli::age_file(&f);
            let before = cli::stat(&f);
            let mut a = cli_args.clone();
            let how = if decoy { rng.below(5) } else { rng.below(14) };
            match how {
                0 => a.extend(["-C".into(), "no_such_option=1".into()]),
                1 => a.extend(["-C".into(), "wrap_column=abc".into()]),
                2 => a.extend(["-C".into(), "tab_width=256".into()]),
                3 => a.extend(["-C".into(), "begin_style=maybe".into()]),
                4 => a.extend(["-C".into(), "use_tabs=perhaps".into()]),
                5 => {
                    std::fs::write(cwd.join("pasfmt.toml"), "wrap_column = 80\nunknown_key = true\n").unwrap();
                    // nearest file is now the invalid one, unless --config-file overrides it
                    if explicit.is_some() {
                        a.extend(["-C".into(), "line_ending=cr".into()]);
                    }
                }
                6 => a.extend(["--config-file".into(), cwd.join("missing.toml").to_string_lossy().to_string()]),
                8 | 9 | 10 => {
                    // the nearest (discovered) file cannot be read as the documented format: bytes that are
                    // not UTF-8 (a cp1252 comment), a TOML syntax error, an ill-typed value
                    // (an ill-typed value only counts when no -C option replaces it before the
                    // configuration is deserialised)
                    let free_key = KEYS.iter().find(|k| !overrides.iter().any(|(o, _)| o == *k));
                    let ill_typed = free_key.map(|k| match *k {
                        "begin_style" | "line_ending" => format!("{k} = 3\n"),
                        _ => format!("{k} = \"eighty\"\n"),
                    });
                    let bytes: Vec<u8> = match (how, ill_typed) {
                        (8, _) => b"# gr\xf6\xdfe\nwrap_column = 80\n".to_vec(),
                        (10, Some(t)) => t.into_bytes(),
                        _ => b"wrap_column = = 80\n".to_vec(),
                    };
                    std::fs::write(cwd.join("pasfmt.toml"), bytes).unwrap();
                    if explicit.is_some() {
                        a.extend(["-C".into(), "line_ending=cr".into()]);
                    }
                }
                12 | 13 => {
                    // a negative number for an unsigned setting, as a bare TOML integer in the nearest file
                    // or in the file named explicitly
                    let key = *rng.pick(&["tab_width", "wrap_column", "continuation_indents"]);
                    let body = format!("{key} = -{}\n", rng.range(1, 9));
                    if how == 12 && !overrides.iter().any(|(o, _)| *o == key) {
                        std::fs::write(cwd.join("pasfmt.toml"), body).unwrap();
                        if explicit.is_some() {
                            a.extend(["-C".into(), "line_ending=cr".into()]);
                        }
                    } else {
                        let p = cwd.join("negative.toml");
                        std::fs::write(&p, body).unwrap();
                        if overrides.iter().any(|(o, _)| *o == key) {
                            a.extend(["-C".into(), "line_ending=cr".into()]);
                        }
                        a.extend(["--config-file".into(), p.to_string_lossy().to_string()]);
                    }
                }
                11 => {
                    // the same unreadable file named explicitly
                    let p = cwd.join("latin1.toml");
                    std::fs::write(&p, b"# gr\xf6\xdfe\nwrap_column = 80\n").unwrap();
                    a.extend(["--config-file".into(), p.to_string_lossy().to_string()]);
                }
                _ => {
                    std::fs::write(cwd.join("pasfmt.toml"), "[section]\nwrap_column = 80\n").unwrap();
                    if explicit.is_some() {
                        a.extend(["-C".into(), "continuation_indents=-1".into()]);
                    }
                }
            }
            a.push("t.pas".into());
            out.evals += 1;
            out.count(&format!("invalid.kind{how}"));
            let r = cli::run(Invocation { bin: &ctx.cli_bin, args: a.clone(), cwd: &cwd, stdin: None, env: vec![], as_nobody: false });
            if r.ok() {
                out.violate("C19", "invalid-config-accepted", format!("invalid configuration (kind {how}) accepted with exit 0: args {:?}", a), PROBE, None);
            }
            if std::fs::read(&f).unwrap_or_default() != original || cli::stat(&f) != before {
                out.violate("C19", "file-touched-before-config-error", format!("configuration error (kind {how}) but the file was modified: args {:?}", a), PROBE, None);
            }
            out.nontrivial.push(rng::hash_str(&format!("invalid{how}{:?}", a)));
            return out;
        }
        // ---- valid: compare with all -C from an empty directory
        out.evals += 1;
        let r1 = cli::run(Invocation { bin: &ctx.cli_bin, args: cli_args.clone(), cwd: &cwd, stdin: Some(PROBE.as_bytes().to_vec()), env: vec![], as_nobody: false });
        let empty = Scratch::new(&ctx.work_dir, "c19e");
        let eff_cfg = to_cfg(&eff);
        out.evals += 1;
        let r2 = cli::run(Invocation { bin: &ctx.cli_bin, args: eff_cfg.to_cli_args(), cwd: &empty.path, stdin: Some(PROBE.as_bytes().to_vec()), env: vec![], as_nobody: false });
        if !r2.ok() {
            out.count("reference_run_failed");
            return out;
        }
        out.count(&format!("depth.{}", if depth >= 10 { "10+".to_string() } else { depth.to_string() }));
        out.count(&format!("config_files_on_path.{}", file_layers.len().min(3)));
        if explicit.is_some() {
            out.count("with_config_file_option");
        }
        if !r1.ok() {
            out.violate("C19", "valid-config-rejected", format!("exit {:?} for args {:?} (files at levels {:?}): {}", r1.code, cli_args, file_layers.iter().map(|l| l.0).collect::<Vec<_>>(), short(&r1.stderr_text(), 200)), PROBE, Some(&eff_cfg));
        } else if r1.stdout != r2.stdout {
            out.violate(
                "C19",
                "precedence",
                format!("output differs from the output under the predicted effective configuration {:?}; layers: files at levels {:?} (nearest wins) {:?}, --config-file {:?}, -C {:?}", eff, file_layers.iter().map(|l| l.0).collect::<Vec<_>>(), file_layers.last().map(|l| &l.1), explicit, overrides),
                PROBE,
                Some(&eff_cfg),
            );
        }
        // in-process library agrees with the binary under the same configuration
        if let Some((lib, _)) = super::common::run(&mut out, &eff_cfg, PROBE) {
            if lib.as_bytes() != r2.stdout {
                out.violate("C19", "binary-library-disagree", format!("binary with -C options and library with the same configuration {:?} give different outputs", eff), PROBE, Some(&eff_cfg));
            }
        }
        if layers_setting.values().any(|v| v.len() >= 2 && v.iter().any(|x| x != &v[0])) || (file_layers.len() >= 2) {
            out.nontrivial.push(rng::hash_str(&format!("{:?}{:?}{:?}", file_layers, explicit, overrides)));
        }
        if idx < 3 {
            out.sample = Some(json!({"depth": depth, "config files at levels": file_layers.iter().map(|l| l.0).collect::<Vec<_>>(), "--config-file": explicit.is_some(), "-C": overrides, "effective": eff}));
        }
        out
    }
}
