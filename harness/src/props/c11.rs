//! C11 — wrap_column is a limit, not a style switch.

use super::common;
use crate::cfg::Cfg;
use crate::oracle;
use crate::prop::{short, CaseOut, Ctx, Prop, Tier};
use crate::refscan;
use crate::rng::{self, Rng};
use serde_json::json;

pub struct C11;

// limits (per mille of swept programs) for the rate-monitored classes in width sweeps; calibrated on
// the unchanged tree, see DESIGN.md
// (observed per 10 000 programs at seeds 1 and 2: choice 31/26, worse 0/1, more lines 6/6, overflow 3/3;
// the limits are per 10 000 programs)
const SWEEP_LIMIT_CHOICE: u64 = 150;
const SWEEP_LIMIT_WORSE: u64 = 5;
const SWEEP_LIMIT_MORE_LINES: u64 = 30;
const SWEEP_LIMIT_OVERFLOW: u64 = 20;

/// widest line, ignoring lines that start inside a multi-line token (their text is not laid
/// out by the wrapper); width is measured the way the wrapper measures it: UTF-8 bytes, a tab counts as one
fn max_width(out: &str) -> usize {
    let toks = refscan::scan(out);
    let mut interior_starts: Vec<(usize, usize)> = vec![];
    for t in &toks {
        let txt = t.text(out);
        if txt.contains('\n') || txt.contains('\r') {
            interior_starts.push((t.start, t.end));
        }
    }
    let mut maxw = 0;
    let mut pos = 0;
    for line in oracle::split_breaks(out) {
        let start = pos;
        pos += line.len();
        // advance over the terminator
        let rest = &out[pos..];
        if rest.starts_with("\r\n") {
            pos += 2;
        } else if rest.starts_with('\n') || rest.starts_with('\r') {
            pos += 1;
        }
        let interior = interior_starts.iter().any(|(s, e)| start > *s && start < *e && pos <= *e);
        if !interior {
            maxw = maxw.max(line.len());
        }
    }
    maxw
}

struct AtWidth {
    w: u32,
    text: String,
    max: u32,
    lines: usize,
    fallback: bool,
    reflow_cache: bool,
}

/// One tiny program formatted at *every* width from 8 to just beyond its widest line; all pairs
/// W1 < W2 are judged. Findings are recorded once per class and program, and the rate-monitored
/// classes are counted per program (the pairs of one program are not independent).
fn width_sweep(rng: &mut Rng, out: &mut CaseOut) {
    // (a third of the programs with many inline block comments: after colons, commas, operators)
    let deco = match rng.below(3) {
        0 => crate::gen::layout::DecoOpts::none(),
        1 => crate::gen::layout::DecoOpts::light(),
        _ => crate::gen::layout::DecoOpts { inline_block_comment: 80, ..crate::gen::layout::DecoOpts::none() },
    };
    // every statement kind equally often (the selector ranges of gram.rs: assignment, call, exit, raise,
    // inherited, inline var/const, if, for-to, for-in, while, with, repeat, try, case, nested begin)
    let selector = *rng.pick(&[5u32, 25, 36, 39, 41, 43, 50, 62, 67, 72, 76, 80, 85, 90, 91, 92, 93, 97]);
    let mut opts = common::gram_opts(rng, 5);
    opts.force_first_stmt = Some(selector);
    let prog = crate::gen::gram::generate(rng, opts);
    let lay = crate::gen::layout::Layout::build(&prog, rng, &deco, false, "  ");
    let w = common::WellFormed { text: lay.render(), name: "gram".into(), prog: None, layout: None, seed_width: None };
    let text = &w.text;
    let base = Cfg::sample_sane(rng);
    let wide = Cfg { wrap_column: 400, ..base.clone() };
    let Some((fw, _)) = common::run(out, &wide, text) else { return };
    let top = (max_width(&fw) as u32 + 1).min(110);
    if top < 12 {
        return;
    }
    let mut res: Vec<AtWidth> = vec![];
    for wc in 8..=top {
        let c = Cfg { wrap_column: wc, ..base.clone() };
        let Some((f, ob)) = common::run(out, &c, text) else { return };
        res.push(AtWidth { w: wc, max: max_width(&f) as u32, lines: oracle::line_count(&f), fallback: ob.has_fallback(), reflow_cache: ob.reflow_cache_hit(), text: f });
    }
    out.count("sweep.programs");
    out.add("sweep.widths_formatted", res.len() as u64);
    let cond_comment = super::wf::comment_after_conditional_directive(text);
    let colon_comment = super::wf::colon_comment_paren(text);
    let mut seen: std::collections::BTreeSet<&'static str> = Default::default();
    let mut report = |out: &mut CaseOut, class: &'static str, detail: String, cfg: &Cfg| {
        if seen.insert(class) {
            out.count(&format!("sweep.programs_with.{class}"));
            out.violate("C11", class, format!("width sweep [{}] {detail}", cfg.short()), text, Some(cfg));
        }
    };
    for i in 0..res.len() {
        for j in i + 1..res.len() {
            let (a, b) = (&res[i], &res[j]);
            out.count("sweep.pairs");
            let fallback = a.fallback || b.fallback;
            let c1 = Cfg { wrap_column: a.w, ..base.clone() };
            // (a)
            if b.max <= a.w && a.text != b.text {
                let class = if fallback {
                    "wrap-fallback"
                } else if cond_comment {
                    "comment-after-conditional-directive"
                } else if (a.reflow_cache || b.reflow_cache) && text.contains("'''") {
                    "reflow-child-cache"
                } else if a.max <= a.w && a.lines == b.lines {
                    "search-choice-depends-on-width"
                } else {
                    "search-misses-better-layout"
                };
                report(out, class, format!("result at wrap_column {} has widest line {} <= {}, but the result at {} differs", b.w, b.max, a.w, a.w), &c1);
            }
            // (b)
            if b.lines > a.lines {
                let class = if fallback {
                    "wrap-fallback"
                } else if a.max > a.w {
                    "unfittable-narrow"
                } else {
                    let b1 = super::wf::line_start_ordinals(&a.text);
                    let b2 = super::wf::line_start_ordinals(&b.text);
                    let headers = super::wf::line_type_nb_ranges(text, &[pasfmt_core::prelude::LogicalLineType::RoutineHeader]);
                    if b1.symmetric_difference(&b2).all(|o| headers.iter().any(|(x, y)| o >= x && o < y)) {
                        "routine-header-prefers-parameter-breaks"
                    } else if b.max <= b.w {
                        "break-kind-priority"
                    } else {
                        // narrower fits, wider overflows: the same pair is a clause (c) finding
                        "search-misses-fitting-layout"
                    }
                };
                report(out, class, format!("{} lines at wrap_column {} but {} lines at {} (widest line at {}: {})", a.lines, a.w, b.lines, b.w, a.w, a.max), &c1);
            }
            // (c)
            if a.max <= a.w && b.max > b.w {
                let class = if fallback {
                    "wrap-fallback"
                } else if colon_comment {
                    "variant-arm-comment-after-colon"
                } else {
                    "search-misses-fitting-layout"
                };
                report(out, class, format!("every line fits at wrap_column {} (widest {}) but not at {} (widest {})", a.w, a.max, b.w, b.max), &c1);
            }
        }
    }
    out.nontrivial.push(rng::hash_combine(rng::hash_str(text), rng::hash_str(&base.short())));
}

impl Prop for C11 {
    fn id(&self) -> &'static str {
        "C11"
    }
    fn aggregate(&self, counters: &std::collections::BTreeMap<String, u64>) -> Vec<crate::prop::Violation> {
        // the known finding `search-choice-depends-on-width` occurs in about 1 of 20 000 fitting
        // pairs on the unchanged tree; a rate above 0.5 % means the width has become a style switch
        let n = counters.get("fits_but_differs_both_fit").copied().unwrap_or(0);
        let pairs = counters.get("pairs_where_wider_result_fits_narrower").copied().unwrap_or(0);
        let all_pairs = counters.get("width_pairs").copied().unwrap_or(0);
        let mut v = vec![];
        for (key, class, per_mille, calibrated) in [("more_lines_both_fit", "more-lines-rate", 3u64, "< 0.01 %"), ("overflow_although_narrower_fits", "overflow-rate", 2u64, "< 0.001 %")] {
            let k = counters.get(key).copied().unwrap_or(0);
            if all_pairs >= 500 && k * 1000 > all_pairs * per_mille {
                v.push(crate::prop::Violation {
                    property: "C11".into(),
                    class: class.into(),
                    detail: format!("{k} of {all_pairs} width pairs show the known finding counted as `{key}` (calibrated rate on the unchanged tree: {calibrated}, limit {per_mille} per mille)"),
                    input: String::new(),
                    cfg: None,
                    extra: serde_json::Value::Null,
                    case_index: 0,
                });
            }
        }
        // width sweeps: rates per program (the pairs of one program are not independent)
        let progs = counters.get("sweep.programs").copied().unwrap_or(0);
        for (class, rate_class, per_mille) in [
            ("search-choice-depends-on-width", "sweep-fits-but-differs-rate", SWEEP_LIMIT_CHOICE),
            ("search-misses-better-layout", "sweep-worse-narrower-layout-rate", SWEEP_LIMIT_WORSE),
            ("break-kind-priority", "sweep-more-lines-rate", SWEEP_LIMIT_MORE_LINES),
            ("search-misses-fitting-layout", "sweep-overflow-rate", SWEEP_LIMIT_OVERFLOW),
        ] {
            let k = counters.get(&format!("sweep.programs_with.{class}")).copied().unwrap_or(0);
            if progs >= 2000 && k * 10_000 > progs * per_mille {
                v.push(crate::prop::Violation {
                    property: "C11".into(),
                    class: rate_class.into(),
                    detail: format!("{k} of {progs} tiny programs formatted at every width show the known finding {class} for some pair of widths (limit {per_mille} per 10 000 programs)"),
                    input: String::new(),
                    cfg: None,
                    extra: serde_json::Value::Null,
                    case_index: 0,
                });
            }
        }
        let worse = counters.get("fits_but_narrower_result_worse").copied().unwrap_or(0);
        if pairs >= 5000 && worse * 5000 > pairs {
            v.push(crate::prop::Violation {
                property: "C11".into(),
                class: "worse-narrower-layout-rate".into(),
                detail: format!("{worse} of {pairs} width pairs whose wider result fits the narrower width gave a narrower result with a different number of lines or an overflowing line (calibrated rate on the unchanged tree: about 0.001 per mille, limit 0.2 per mille)"),
                input: String::new(),
                cfg: None,
                extra: serde_json::Value::Null,
                case_index: 0,
            });
        }
        if !v.is_empty() {
            return v;
        }
        if pairs >= 200 && n * 200 > pairs {
            return vec![crate::prop::Violation {
                property: "C11".into(),
                class: "fits-but-differs-rate".into(),
                detail: format!("{n} of {pairs} width pairs whose wider result fits the narrower width gave a different narrower result (calibrated rate on the unchanged tree: < 0.01 %, limit 0.5 %)"),
                input: String::new(),
                cfg: None,
                extra: serde_json::Value::Null,
                case_index: 0,
            }];
        }
        vec![]
    }
    fn cases(&self, ctx: &Ctx) -> u64 {
        ctx.tier.pick(20_000, 200_000)
    }
    fn rule(&self) -> &'static str {
        "well-formed inputs (seeds, grammar programs) x width pairs W1 < W2 chosen from observations: W2 sampled in 10..200 and the default, W1 = widest line of F_W2, that minus 1, and random smaller widths, x other settings; oracles: (a) widest(F_W2) <= W1 implies F_W1 == F_W2; (b) lines(F_W2) <= lines(F_W1); (c) F_W1 fits W1 implies F_W2 fits W2. Non-trivial: F_W1 != F_W2 or W1 within 2 of the widest line of F_W2; distinct by (input, W1, W2, configuration)."
    }
    fn floor(&self, tier: Tier) -> u64 {
        tier.pick(3_000, 50_000)
    }
    fn run_case(&self, ctx: &Ctx, idx: u64) -> CaseOut {
        let mut out = CaseOut::default();
        let mut rng = Rng::derive(ctx.seed, "C11", idx);
        if idx % 2 == 1 {
            width_sweep(&mut rng, &mut out);
        }
        for k in 0..8 {
            // small programs: the widest line is then often the interesting one
            let size = *rng.pick(&[1usize, 2, 3, 3, 6, 6, 25]);
            let mut w = common::well_formed(ctx, &mut rng, size);
            if rng.chance(1, 8) {
                // multi-line literals with wrappable text after the closing quotes, also as bodies of
                // control statements and inside anonymous routines
                w = common::WellFormed { text: common::mls_carrier(&mut rng), name: "mls-carrier".into(), prog: None, layout: None, seed_width: None };
            }
            let mut base = Cfg::sample_sane(&mut rng);
            let w2 = if rng.chance(1, 5) { 120 } else { rng.range(12, 200) as u32 };
            base.wrap_column = w2;
            out.count(if w.prog.is_some() { "gen.gram" } else { "gen.seed" });
            let Some((f2, ob2)) = common::run(&mut out, &base, &w.text) else { continue };
            let max2 = max_width(&f2) as u32;
            let mut w1s: Vec<u32> = vec![];
            if max2 < w2 && max2 > 0 {
                w1s.push(max2);
                if max2 > 1 {
                    w1s.push(max2 - 1);
                }
            }
            for _ in 0..2 {
                let c = rng.range(8, w2.max(9) as usize - 1) as u32;
                if c < w2 {
                    w1s.push(c);
                }
            }
            w1s.sort_unstable();
            w1s.dedup();
            for w1 in w1s {
                let c1 = Cfg { wrap_column: w1, ..base.clone() };
                let Some((f1, ob1)) = common::run(&mut out, &c1, &w.text) else { continue };
                let fallback = ob1.has_fallback() || ob2.has_fallback();
                if fallback {
                    out.count("pairs_with_wrap_fallback");
                }
                let max1 = max_width(&f1) as u32;
                let cls = |c: &'static str| if fallback { "wrap-fallback" } else { c };
                out.count("width_pairs");
                // (a)
                if max2 <= w1 {
                    out.count("pairs_where_wider_result_fits_narrower");
                    if f1 != f2 {
                        let reflow_cache = ob1.reflow_cache_hit() || ob2.reflow_cache_hit();
                        // both results fit the narrower width: the heuristic search made a different
                        // (equally fitting) choice; rare on the unchanged tree, judged by its rate
                        let class = if fallback {
                            "wrap-fallback"
                        } else if super::wf::comment_after_conditional_directive(&w.text) {
                            "comment-after-conditional-directive"
                        } else if reflow_cache && w.text.contains("'''") {
                            "reflow-child-cache"
                        } else if max1 <= w1 && oracle::line_count(&f1) == oracle::line_count(&f2) {
                            // same number of lines, breaks at different places
                            out.count("fits_but_differs_both_fit");
                            "search-choice-depends-on-width"
                        } else {
                            // the narrower search returned a worse layout (more lines, or an overflowing
                            // one) although the wider result fits the narrower width: the best-first search
                            // is not exact; about 1 in a million pairs on the unchanged tree, judged by its rate
                            out.count("fits_but_narrower_result_worse");
                            "search-misses-better-layout"
                        };
                        out.violate("C11", class, format!("{} [{}] result at wrap_column {w2} has widest line {max2} <= {w1}, but the result at {w1} differs", w.name, base.short()), &w.text, Some(&c1));
                    }
                }
                // (b)
                let (n1, n2) = (oracle::line_count(&f1), oracle::line_count(&f2));
                if n2 > n1 {
                    let class = if fallback {
                        "wrap-fallback"
                    } else if max1 > w1 {
                        "unfittable-narrow"
                    } else {
                        // where do the two results break lines differently?
                        let b1 = super::wf::line_start_ordinals(&f1);
                        let b2 = super::wf::line_start_ordinals(&f2);
                        let headers = super::wf::line_type_nb_ranges(&w.text, &[pasfmt_core::prelude::LogicalLineType::RoutineHeader]);
                        if b1.symmetric_difference(&b2).all(|o| headers.iter().any(|(a, b)| o >= a && o < b)) {
                            "routine-header-prefers-parameter-breaks"
                        } else if max2 <= w2 {
                            // both results fit their width: a cheaper *kind* of break (argument list
                            // instead of generic arguments, ...) became feasible; judged by its rate
                            out.count("more_lines_both_fit");
                            "break-kind-priority"
                        } else {
                            // the narrower result fits but the wider one overflows (and has more lines):
                            // the same pair is a clause (c) finding, counted and rate-monitored there
                            "search-misses-fitting-layout"
                        }
                    };
                    out.violate("C11", class, format!("{} [{}] {n1} lines at wrap_column {w1} but {n2} lines at {w2} (widest line at {w1}: {max1})", w.name, base.short()), &w.text, Some(&c1));
                }
                // (c)
                if max1 <= w1 && max2 > w2 {
                    let class = if fallback {
                        "wrap-fallback"
                    } else if super::wf::colon_comment_paren(&w.text) {
                        "variant-arm-comment-after-colon"
                    } else {
                        // a fitting layout exists (the narrower result) but the heuristic search returned an
                        // overflowing one; rare on the unchanged tree, judged by its rate
                        out.count("overflow_although_narrower_fits");
                        "search-misses-fitting-layout"
                    };
                    out.violate("C11", class, format!("{} [{}] every line fits at wrap_column {w1} (widest {max1}) but not at {w2} (widest {max2})", w.name, base.short()), &w.text, Some(&c1));
                }
                if f1 != f2 || (max2 as i64 - w1 as i64).abs() <= 2 {
                    out.nontrivial.push(rng::hash_combine(rng::hash_combine(rng::hash_str(&w.text), ((w1 as u64) << 32) | w2 as u64), rng::hash_str(&base.short())));
                }
                if out.sample.is_none() && idx < 32 {
                    out.sample = Some(json!({"source": w.name, "W1": w1, "W2": w2, "widest at W2": max2, "lines at W1": n1, "lines at W2": n2, "input": short(&w.text, 200)}));
                }
            }
        }
        out
    }
}
