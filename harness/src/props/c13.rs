//! C13 — scanning is lossless and follows the lexical rules at any length.

use super::common;
use crate::exec;
use crate::prop::{short, CaseOut, Ctx, Prop, Tier};
use crate::refscan::{self, RK};
use crate::rng::{self, Rng};
use pasfmt_core::prelude::*;
use serde_json::json;

pub struct C13;

/// delimiter classes that may follow a word: (text, does it extend the word?)
pub const DELIMS: &[(&str, bool)] = &[
    ("", false),
    (" ", false),
    ("\t", false),
    ("\n", false),
    ("\r\n", false),
    ("\u{3000}", false),
    ("\u{b}", false),
    (";", false),
    (",", false),
    (".", false),
    (":", false),
    (":=", false),
    ("(", false),
    (")", false),
    ("[", false),
    ("]", false),
    ("+", false),
    ("-", false),
    ("*", false),
    ("/", false),
    ("=", false),
    ("<", false),
    (">", false),
    ("^", false),
    ("@", false),
    ("'", false),
    ("{", false),
    ("//", false),
    ("#", false),
    ("$", false),
    ("&", false),
    ("?", false),
    ("0", true),
    ("9", true),
    ("_", true),
    ("z", true),
    ("é", true),
    ("漢", true),
    ("\u{1F600}", true),
    ("\u{80}", true),
];

pub const WORD_CLASSES: usize = 8;

/// build the word of a class; returns (word, must be keyword-capable?)
pub fn make_word(class: usize, len: usize, rng: &mut Rng) -> String {
    const ALNUM: &[u8] = b"abcdefghijklmnopqrstuvwxyzABCDEFGHIJKLMNOPQRSTUVWXYZ0123456789_";
    let mut w = String::new();
    let first = |rng: &mut Rng| (*rng.pick(b"abcxyzABCXYZ_")) as char;
    match class {
        0 => {
            // random identifier
            w.push(first(rng));
            while w.len() < len {
                w.push(*rng.pick(ALNUM) as char);
            }
        }
        1 | 2 | 3 => {
            // keyword in lower / upper / alternating case (length fixed by the keyword)
            let k = refscan::KEYWORDS[rng.below(refscan::KEYWORDS.len())];
            for (i, c) in k.chars().enumerate() {
                w.push(match class {
                    1 => c,
                    2 => c.to_ascii_uppercase(),
                    _ => if i % 2 == 0 { c.to_ascii_uppercase() } else { c },
                });
            }
        }
        4 => {
            // keyword + one more character: an identifier
            let k = refscan::KEYWORDS[rng.below(refscan::KEYWORDS.len())];
            w.push_str(k);
            w.push(*rng.pick(b"x_1Z") as char);
            while w.len() < len {
                w.push(*rng.pick(ALNUM) as char);
            }
        }
        5 => {
            // only digits and underscores after the first letter
            w.push(first(rng));
            while w.len() < len {
                w.push(*rng.pick(b"0123456789_09") as char);
            }
        }
        6 => {
            // boundary characters of the ranges: a z A Z 0 9 _
            w.push(*rng.pick(b"azAZ") as char);
            while w.len() < len {
                w.push(*rng.pick(b"azAZ09_") as char);
            }
        }
        _ => {
            // a non-ASCII character somewhere: first chunk, second chunk or last position
            w.push(first(rng));
            while w.len() < len {
                w.push(*rng.pick(ALNUM) as char);
            }
            let ch = *rng.pick(&['é', 'ß', '漢', '\u{1F600}', '\u{80}', '\u{7ff}']);
            let pos = match rng.below(4) {
                0 => rng.range(1, 31.min(w.len())),
                1 => rng.range(32.min(w.len()), 63.min(w.len())),
                2 => w.len(),
                _ => rng.range(1, w.len()),
            };
            w.insert(pos.min(w.len()), ch);
        }
    }
    w
}

fn map_kind(t: RawTokenType) -> RK {
    match t {
        RawTokenType::Op(_) => RK::Op,
        RawTokenType::Identifier | RawTokenType::IdentifierOrKeyword(_) | RawTokenType::Keyword(_) => RK::Word,
        RawTokenType::TextLiteral(TextLiteralKind::SingleLine) | RawTokenType::TextLiteral(TextLiteralKind::Asm) => RK::Str,
        RawTokenType::TextLiteral(TextLiteralKind::MultiLine) => RK::MlStr,
        RawTokenType::TextLiteral(TextLiteralKind::Unterminated) => RK::UntermStr,
        RawTokenType::NumberLiteral(_) => RK::Number,
        RawTokenType::ConditionalDirective(_) | RawTokenType::CompilerDirective => RK::Directive,
        RawTokenType::Comment(k) => if k.is_singleline() { RK::LineComment } else { RK::BlockComment },
        RawTokenType::Eof => RK::Unknown,
        RawTokenType::Unknown => RK::Unknown,
    }
}

/// structural clauses on a scan result; returns token (start,end,kind) list without EOF
pub fn structural(input: &str, toks: &[RawToken]) -> Result<Vec<(usize, usize, RawTokenType)>, String> {
    let mut pos = 0usize;
    let mut out = Vec::with_capacity(toks.len());
    if toks.is_empty() {
        return Err("no tokens at all (end-of-file token missing)".into());
    }
    for (i, t) in toks.iter().enumerate() {
        let ws = t.get_leading_whitespace();
        let content = t.get_content();
        let whole_len = ws.len() + content.len();
        if pos + whole_len > input.len() || &input[pos..pos + ws.len()] != ws || &input[pos + ws.len()..pos + whole_len] != content {
            return Err(format!("token #{i} does not continue the input at byte {pos}: leading {:?} content {:?}", short(ws, 40), short(content, 40)));
        }
        if !ws.chars().all(refscan::is_blank_char) {
            return Err(format!("token #{i}: leading blanks contain a non-blank: {:?}", short(ws, 40)));
        }
        let is_last = i + 1 == toks.len();
        let is_eof = t.get_token_type() == RawTokenType::Eof;
        if is_eof != is_last {
            return Err(format!("token #{i}: end-of-file token {} (of {} tokens)", if is_eof { "is not last" } else { "missing at the end" }, toks.len()));
        }
        if is_eof {
            if !content.is_empty() {
                return Err(format!("end-of-file token has content {:?}", short(content, 40)));
            }
        } else {
            if content.is_empty() {
                return Err(format!("token #{i} has empty content"));
            }
            if content.chars().next().is_some_and(refscan::is_blank_char) {
                return Err(format!("token #{i} content starts with a blank: {:?}", short(content, 40)));
            }
            out.push((pos + ws.len(), pos + whole_len, t.get_token_type()));
        }
        pos += whole_len;
    }
    if pos != input.len() {
        return Err(format!("tokens cover {pos} of {} bytes", input.len()));
    }
    Ok(out)
}

fn lex_both(out: &mut CaseOut, input: &str) -> Option<Vec<(usize, usize, RawTokenType)>> {
    out.evals += 1;
    pasfmt_core::verif::set_force_scalar_ident_scan(false);
    let a = match exec::lex(input) {
        Ok(t) => t,
        Err(p) => {
            out.violate("C13", "lexer-panic", format!("{} at {}", p.message, p.location), input, None);
            return None;
        }
    };
    let sa = match structural(input, &a) {
        Ok(s) => s,
        Err(e) => {
            out.violate("C13", "not-lossless", e, input, None);
            return None;
        }
    };
    // the same scan with the portable identifier routine forced
    pasfmt_core::verif::set_force_scalar_ident_scan(true);
    let b = exec::lex(input);
    pasfmt_core::verif::set_force_scalar_ident_scan(false);
    match b {
        Ok(b) => {
            let same = a.len() == b.len() && a.iter().zip(b.iter()).all(|(x, y)| x.get_content() == y.get_content() && x.get_leading_whitespace() == y.get_leading_whitespace() && x.get_token_type() == y.get_token_type());
            if !same {
                out.violate("C13", "routines-disagree", "scan with the vectorised identifier routine differs from the scan with the portable routine".into(), input, None);
            }
        }
        Err(p) => out.violate("C13", "lexer-panic", format!("portable routine: {} at {}", p.message, p.location), input, None),
    }
    Some(sa)
}

fn compare_with_refscan(out: &mut CaseOut, input: &str, toks: &[(usize, usize, RawTokenType)]) {
    let r = refscan::scan(input);
    // asm bodies have their own lexical rules which the reference scanner only approximates
    if r.iter().any(|t| t.in_asm) {
        out.count("refscan_skipped_asm");
        return;
    }
    out.count("refscan_compared");
    if r.len() != toks.len() {
        let k = r.iter().zip(toks.iter()).position(|(a, b)| a.start != b.0 || a.end != b.1).unwrap_or(r.len().min(toks.len()));
        let at = r.get(k).map(|t| t.start).or(toks.get(k).map(|t| t.0)).unwrap_or(0);
        out.violate("C13", "boundary-disagreement", format!("token count {} vs reference {}; first difference at token #{k} near byte {at}: pasfmt {:?} reference {:?}", toks.len(), r.len(), toks.get(k).map(|t| short(&input[t.0..t.1], 40)), r.get(k).map(|t| short(t.text(input), 40))), input, None);
        return;
    }
    let mut prev_dot = false;
    for (k, (a, b)) in r.iter().zip(toks.iter()).enumerate() {
        if a.start != b.0 || a.end != b.1 {
            out.violate("C13", "boundary-disagreement", format!("token #{k}: pasfmt {:?} [{}..{}] vs reference {:?} [{}..{}]", short(&input[b.0..b.1], 40), b.0, b.1, short(a.text(input), 40), a.start, a.end), input, None);
            return;
        }
        let mk = map_kind(b.2);
        let rk = if a.kind == RK::AmpWord { if matches!(mk, RK::Number) { RK::Number } else { RK::Word } } else { a.kind };
        if mk != rk {
            out.violate("C13", "kind-disagreement", format!("token #{k} {:?}: pasfmt {:?} vs reference {:?}", short(a.text(input), 40), b.2, a.kind), input, None);
            return;
        }
        if a.kind == RK::Word {
            let is_kw = matches!(b.2, RawTokenType::Keyword(_) | RawTokenType::IdentifierOrKeyword(_));
            let expect = refscan::is_keyword_capable(a.text(input)) && !prev_dot;
            if is_kw != expect {
                out.violate("C13", "keyword-recognition", format!("word {:?}: pasfmt says {:?}, keyword table says keyword-capable={}", a.text(input), b.2, expect), input, None);
                return;
            }
            out.count(if is_kw { "words.keyword" } else { "words.identifier" });
        }
        if !matches!(a.kind, RK::LineComment | RK::BlockComment | RK::Directive) {
            prev_dot = a.kind == RK::Op && a.text(input) == ".";
        }
    }
}

/// lexically valid token soup: every lexeme is a complete token, separated by blanks
fn valid_soup(rng: &mut Rng) -> String {
    const LEX: &[&str] = &[
        "begin", "END", "Foo", "x1", "_a", "&type", "Größe", "123", "1.5", "1e10", "1.5E-3", "$FF", "%1010", "1_000", "'s'", "''", "'a''b'", "#13", "#13#10", "'a'#13'b'", "#$0D",
        ":=", "<=", ">=", "<>", "..", "(", ")", "[", "]", "<", ">", "=", "+", "-", "*", "/", "^", "@", ".", ",", ";", ":", "{c}", "(*c*)", "{$R+}", "(*$R-*)", "{$IFDEF X}",
        "{$IF A > 1}", "{ multi\nline }", "// line\n", "'''\nml\n'''", "'unterminated\n", "?", "\"", "Foo.asm", "X.ASM", "A.end", "B . asm", "C.begin", "// cr\r", "//x\r", "// crcrlf\r\r\n", "10\u{b2}", "1.5\u{ff15}", "#13\u{663}", "$FF\u{b2}", "1e5\u{2075}", "%101\u{b9}",
        // an exponent's digit run starts with a digit: the underscore begins an identifier
        "1e_5", "2.5E+_1", "3E-_2x", "1_0e1_0",
    ];
    let n = rng.range(1, 40);
    let mut s = String::new();
    for _ in 0..n {
        s.push_str(rng.pick_str(LEX));
        s.push_str(rng.pick_str(&[" ", " ", "\n", "\t", "  ", "\r\n", "\u{3000}", " \n "]));
    }
    s
}

/// input that ends inside a comment or directive; the tail mixes characters on which Delphi's
/// blank set (up to U+0020, U+3000) and Unicode White_Space disagree: the token must end at the
/// last character that is not a Delphi blank
fn unterminated_tail(rng: &mut Rng) -> String {
    let mut s = if rng.bool() { valid_soup(rng) } else { String::new() };
    s.push_str(rng.pick_str(&["{", "(*", "{$X", "(*$X", "{$IFDEF A", "{ todo", "(* note", "{$R"]));
    let n = rng.range(1, 5);
    for _ in 0..n {
        s.push_str(rng.pick_str(&["\u{a0}", "\u{2028}", "\u{85}", "\u{1a}", "\0", "\u{3000}", " ", "\t", "\n", "\r\n", "x", "\u{2003}", "\u{feff}", "\u{1f}", "\u{200b}", "é"]));
    }
    s
}

impl Prop for C13 {
    fn id(&self) -> &'static str {
        "C13"
    }
    fn cases(&self, ctx: &Ctx) -> u64 {
        // boundary enumeration cases + soup cases
        ctx.tier.pick(1200 + 6000, 201 * 65 + 100_000)
    }
    fn rule(&self) -> &'static str {
        "(a) boundary product: word length 1..200 x start alignment 0..64 x delimiter class (40 classes: end of input, blanks incl. U+3000, every operator start, quote, brace, digits/underscore/non-ASCII that extend the word) x word class (identifier, keyword lower/upper/alternating, keyword+1, digit/underscore body, range-boundary letters, non-ASCII inside chunk 1/2/last) - thorough enumerates all (length, alignment) pairs with every delimiter, quick samples them; expected boundaries known by construction; both identifier routines compared directly and through whole-lexer runs; (b) all generators for losslessness and structure; (c) reference scanner comparison of boundaries, kinds and keyword recognition on seeds, grammar programs and valid token soup. Non-trivial: word longer than one 32-byte chunk or straddling a chunk boundary (a) / input with >= 5 tokens (b,c); distinct by input hash."
    }
    fn floor(&self, tier: Tier) -> u64 {
        tier.pick(2_000, 50_000)
    }
    fn post(&self, ctx: &Ctx) -> Option<CaseOut> {
        let mut out = CaseOut::default();
        crate::sanit::miri_lexer(ctx, &mut out);
        if ctx.tier == Tier::Thorough {
            crate::sanit::asan_replay(ctx, "C13", &mut out);
        }
        Some(out)
    }
    fn run_case(&self, ctx: &Ctx, idx: u64) -> CaseOut {
        let mut out = CaseOut::default();
        let mut rng = Rng::derive(ctx.seed, "C13", idx);
        let n_boundary = ctx.tier.pick(1200, 201 * 65);
        if idx < n_boundary {
            // (length, alignment) pair: thorough enumerates, quick samples but covers all lengths and all alignments
            let (len, align) = match ctx.tier {
                Tier::Thorough => ((idx / 65) as usize, (idx % 65) as usize),
                Tier::Quick => {
                    if idx < 200 {
                        (idx as usize + 1, rng.below(65))
                    } else if idx < 265 {
                        (rng.range(1, 200), (idx - 200) as usize)
                    } else {
                        (rng.range(1, 200), rng.below(65))
                    }
                }
            };
            let len = len.max(1);
            let delims: Vec<usize> = match ctx.tier {
                Tier::Thorough => (0..DELIMS.len()).collect(),
                Tier::Quick => {
                    let mut v: Vec<usize> = (0..DELIMS.len()).collect();
                    rng.shuffle(&mut v);
                    v.truncate(12);
                    v
                }
            };
            for class in 0..WORD_CLASSES {
                let word = make_word(class, len, &mut rng);
                for &di in &delims {
                    let (delim, extends) = DELIMS[di];
                    // exact-capacity allocation so that an over-read crosses the allocation end
                    let mut input = String::with_capacity(align + word.len() + delim.len());
                    for _ in 0..align {
                        input.push(' ');
                    }
                    input.push_str(&word);
                    input.push_str(delim);
                    let input = input.into_boxed_str();
                    let expected_end = align + word.len() + if extends { delim.len() } else { 0 };
                    // direct differential of the two routines
                    out.evals += 1;
                    let first_len = word.chars().next().unwrap().len_utf8();
                    // (a panic inside either routine is an observation, not a harness failure)
                    let direct = std::panic::catch_unwind(std::panic::AssertUnwindSafe(|| {
                        (
                            pasfmt_core::defaults::lexer::verif_identifier_end(&input, align + first_len, false),
                            pasfmt_core::defaults::lexer::verif_identifier_end(&input, align + first_len, true),
                        )
                    }));
                    let (s, v) = match direct {
                        Ok(p) => p,
                        Err(_) => {
                            let p = crate::exec::take_panic();
                            out.violate("C13", "identifier-routine-panics", format!("identifier scan of {:?} from offset {} panicked: {} at {}", short(&input, 80), align + first_len, short(&p.message, 160), p.location), &input, None);
                            (None, None)
                        }
                    };
                    match (s, v) {
                        (Some(s), Some(v)) => {
                            out.count("routine_pairs_compared");
                            if s != v {
                                out.violate("C13", "routines-disagree", format!("identifier end of {:?} at offset {}: portable {s}, vectorised {v}", short(&input, 80), align + first_len), &input, None);
                            }
                            if s != expected_end {
                                out.violate("C13", "boundary-by-construction", format!("identifier end: expected {expected_end} got {s} for word {:?} + delimiter {:?} at alignment {align}", short(&word, 60), delim), &input, None);
                            }
                        }
                        (Some(s), None) => {
                            out.count("vectorised_routine_unavailable");
                            if s != expected_end {
                                out.violate("C13", "boundary-by-construction", format!("identifier end: expected {expected_end} got {s}"), &input, None);
                            }
                        }
                        _ => {}
                    }
                    // whole lexer
                    if let Some(toks) = lex_both(&mut out, &input) {
                        match toks.first() {
                            Some(&(st, en, kind)) => {
                                if st != align || en != expected_end {
                                    out.violate("C13", "boundary-by-construction", format!("first token [{st}..{en}] expected [{align}..{expected_end}] for word {:?} delimiter {:?}", short(&word, 60), delim), &input, None);
                                } else {
                                    let text = &input[st..en];
                                    let is_kw = matches!(kind, RawTokenType::Keyword(_) | RawTokenType::IdentifierOrKeyword(_));
                                    if is_kw != refscan::is_keyword_capable(text) || !matches!(kind, RawTokenType::Keyword(_) | RawTokenType::IdentifierOrKeyword(_) | RawTokenType::Identifier) {
                                        out.violate("C13", "keyword-recognition", format!("word {:?} scanned as {:?}", short(text, 60), kind), &input, None);
                                    }
                                }
                            }
                            None => out.violate("C13", "boundary-by-construction", "no token found".into(), &input, None),
                        }
                    }
                    let end_rel = word.len() + if extends { delim.len() } else { 0 };
                    if end_rel > 32 || (align + first_len) / 32 != (align + end_rel) / 32 {
                        out.nontrivial.push(rng::hash_str(&input));
                    }
                    out.count(&format!("wordclass.{class}"));
                }
            }
            if idx == 7 {
                out.sample = Some(json!({"part": "boundary product", "length": len, "alignment": align, "example word": make_word(7, len, &mut rng), "delimiters": delims.len()}));
            }
        } else {
            for k in 0..30 {
                let (input, kind) = match rng.below(5) {
                    0 => (valid_soup(&mut rng), "valid-soup"),
                    4 => (unterminated_tail(&mut rng), "unterminated-tail"),
                    1 => {
                        let w = common::well_formed(ctx, &mut rng, 20);
                        (w.text, "well-formed")
                    }
                    _ => common::any_input(ctx, &mut rng),
                };
                out.count(&format!("gen.{kind}"));
                if let Some(toks) = lex_both(&mut out, &input) {
                    if kind == "valid-soup" || kind == "well-formed" || kind == "unterminated-tail" {
                        compare_with_refscan(&mut out, &input, &toks);
                    }
                    if toks.len() >= 5 {
                        out.nontrivial.push(rng::hash_str(&input));
                    }
                    if k == 0 && idx == n_boundary {
                        out.sample = Some(json!({"part": "losslessness + reference scanner", "generator": kind, "input": short(&input, 200), "tokens": toks.len()}));
                    }
                }
            }
        }
        out
    }
}
