//! C02 — well-formed code re-scans to the same tokens.

use super::common;
use super::wf;
use crate::cfg::Cfg;
use crate::exec;
use crate::gen::layout::{Layout, Style};
use crate::prop::{short, CaseOut, Ctx, Prop, Tier};
use crate::refscan::{self, RK};
use crate::rng::{self, Rng};
use pasfmt_core::prelude::*;
use serde_json::json;

pub struct C02;

/// syntactically valid carriers that put two expression-level token classes next to each other
const PAIR_CARRIERS: &[&str] = &[
    "begin\n  X := A{}B;\nend;\n",
    "begin\n  if A{}B then\n    Foo;\nend;\n",
    "begin\n  Foo(A{}B, C);\nend;\n",
    "const\n  C = A{}B;\n",
];
/// (text placed between A and B / or replacing the whole `A{}B`)
const PAIR_FILLERS: &[&str] = &[
    " + ", " - ", " * ", " / ", " div ", " mod ", " and ", " or ", " xor ", " shl ", " shr ", " = ", " <> ", " < ", " > ", " <= ", " >= ", " in ", " is ", " as ", ".", "^.", "^ + ", "^ - ", "[1] + ", "[1].", "(1) + ", " + -", " - -", " * +", " + not ",
    " + @", " = nil) or (", " + 1.5 + ", " + 1 .. ", "..", " + $FF + ", " + #13 + ", " + 'a' + ", " + #13'x' + ", " + &begin + ", ".&end + ", " + (.", "<B> + ", " + [1, 2] + ", " + [1..2] * ",
];

fn pasfmt_tokens(text: &str) -> Option<Vec<(RK, String)>> {
    let toks = exec::lex(text).ok()?;
    let mut v = Vec::with_capacity(toks.len());
    for t in &toks {
        let k = match t.get_token_type() {
            RawTokenType::Eof => continue,
            RawTokenType::Op(_) => RK::Op,
            RawTokenType::Identifier | RawTokenType::IdentifierOrKeyword(_) | RawTokenType::Keyword(_) => RK::Word,
            RawTokenType::TextLiteral(TextLiteralKind::MultiLine) => RK::MlStr,
            RawTokenType::TextLiteral(TextLiteralKind::Unterminated) => RK::UntermStr,
            RawTokenType::TextLiteral(_) => RK::Str,
            RawTokenType::NumberLiteral(_) => RK::Number,
            RawTokenType::ConditionalDirective(_) | RawTokenType::CompilerDirective => RK::Directive,
            RawTokenType::Comment(k) => if k.is_singleline() { RK::LineComment } else { RK::BlockComment },
            RawTokenType::Unknown => RK::Unknown,
        };
        v.push((k, t.get_content().to_string()));
    }
    Some(v)
}

pub fn check_rescan(out: &mut CaseOut, name: &str, input: &str, cfg: &Cfg) -> bool {
    let Some((output, obs)) = common::run(out, cfg, input) else { return false };
    let a = refscan::scan(input);
    if a.iter().any(|t| t.in_asm) {
        out.count("skipped_asm");
        return false;
    }
    // verbatim regions are C07's business: tokens inside are not normalised
    if a.iter().any(|t| matches!(t.kind, RK::LineComment | RK::BlockComment) && crate::oracle::toggle_of(t.text(input)).is_some()) {
        out.count("skipped_toggle");
        return false;
    }
    let b = refscan::scan(&output);
    let fallback = obs.has_fallback();
    if let Err(e) = wf::compare_scans(input, &a, &output, &b, cfg.format_multiline_strings) {
        out.violate("C02", if fallback { "rescan-differs+fallback" } else { "rescan-differs" }, format!("{name} [{}] reference scanner: {e}", cfg.short()), input, Some(cfg));
        return true;
    }
    // second opinion: pasfmt's own lexer on input and output
    if let (Some(pa), Some(pb)) = (pasfmt_tokens(input), pasfmt_tokens(&output)) {
        let mut bad = None;
        if pa.len() != pb.len() {
            bad = Some(format!("pasfmt lexer: {} tokens before, {} after", pa.len(), pb.len()));
        } else {
            for (k, (x, y)) in pa.iter().zip(pb.iter()).enumerate() {
                if x.0 != y.0 || !wf::token_related(x.0, &x.1, &y.1, cfg.format_multiline_strings) {
                    bad = Some(format!("pasfmt lexer: token #{k} {:?} {:?} became {:?} {:?}", x.0, short(&x.1, 50), y.0, short(&y.1, 50)));
                    break;
                }
            }
        }
        if let Some(e) = bad {
            out.violate("C02", "rescan-differs", format!("{name} [{}] {e}", cfg.short()), input, Some(cfg));
            return true;
        }
    }
    if obs.safety_net_fired() {
        out.count("safety_net_warnings");
    }
    // evidence: adjacent kind pairs with a zero-width gap in the output
    let mut glued = 0;
    for w in b.windows(2) {
        if w[0].end == w[1].start {
            glued += 1;
        }
    }
    out.add("zero_width_gaps_in_outputs", glued);
    let decorated = a.iter().any(|t| matches!(t.kind, RK::LineComment | RK::BlockComment | RK::Directive | RK::Str | RK::MlStr));
    if decorated && output != input {
        let mut h = rng::hash_str(&cfg.short());
        for t in a.iter().take(300) {
            h = rng::hash_combine(h, t.kind as u64 + 17 * (t.end - t.start).min(9) as u64);
        }
        out.nontrivial.push(h);
    }
    true
}

impl Prop for C02 {
    fn id(&self) -> &'static str {
        "C02"
    }
    fn cases(&self, ctx: &Ctx) -> u64 {
        ctx.tier.pick(20_000, 300_000)
    }
    fn rule(&self) -> &'static str {
        "grammar programs (token list known by construction) in decorated layouts (own-line/trailing/inline comments, directives wrapping whole statements) and re-layouts (one line, one token per line, random gaps), data-test seeds, and a pair sweep placing expression-level token classes next to each other in valid carriers, x sampled configurations incl. widths that force wrapping; oracle: reference scan of the output equals reference scan of the input under the documented normalisations (relation N in harness/src/props/wf.rs), and the same with pasfmt's own lexer. Non-trivial: program has a comment, directive or literal and output != input; distinct by hash of token-kind/length sequence + configuration."
    }
    fn floor(&self, tier: Tier) -> u64 {
        tier.pick(3_000, 50_000)
    }
    fn run_case(&self, ctx: &Ctx, idx: u64) -> CaseOut {
        let mut out = CaseOut::default();
        let mut rng = Rng::derive(ctx.seed, "C02", idx);
        for k in 0..12 {
            let part = rng.below(10);
            if part < 2 {
                // pair sweep
                let carrier = *rng.pick(PAIR_CARRIERS);
                let filler = *rng.pick(PAIR_FILLERS);
                let text = carrier.replace("{}", filler);
                let mut cfg = Cfg::sample_sane(&mut rng);
                cfg.wrap_column = *rng.pick(&[5u32, 10, 14, 20, 120]);
                out.count("gen.pair-sweep");
                check_rescan(&mut out, "pair-sweep", &text, &cfg);
                continue;
            }
            let w = if rng.chance(1, 5) {
                // "any placement of comments": own-line comments between arbitrary tokens
                let deco = crate::gen::layout::DecoOpts { odd_comment: *rng.pick(&[5u32, 20, 60]), ..crate::gen::layout::DecoOpts::light() };
                out.count("gen.gram-odd-comments");
                common::gram_case(&mut rng, 25, &deco)
            } else {
                common::well_formed(ctx, &mut rng, 30)
            };
            let mut cfg = if rng.chance(1, 4) { Cfg::sample(&mut rng) } else { Cfg::sample_sane(&mut rng) };
            if let Some(sw) = w.seed_width {
                if rng.bool() {
                    cfg.wrap_column = sw;
                }
            }
            common::cfg_hist(&mut out, &cfg);
            out.count(if w.prog.is_some() { "gen.gram" } else { "gen.seed" });
            let ok = check_rescan(&mut out, &w.name, &w.text, &cfg);
            // a re-layout of the same program
            if rng.chance(1, 2) {
                let lay = match &w.layout {
                    Some(l) => l.clone(),
                    None => Layout::from_text(&w.text),
                };
                let style = *rng.pick(&[Style::OneLine, Style::TokenPerLine, Style::Random, Style::Random]);
                let (l2, changed) = lay.relayout(&mut rng, style, true);
                if changed > 0 {
                    out.count(&format!("gen.relayout.{style:?}"));
                    check_rescan(&mut out, &format!("{}+relayout", w.name), &l2.render(), &cfg);
                }
            }
            // the same program with lone CRs as line breaks between tokens
            if rng.chance(1, 6) {
                let lay = match &w.layout {
                    Some(l) => l.clone(),
                    None => Layout::from_text(&w.text),
                };
                let text = lay.with_cr_endings().render();
                // (multi-line tokens keep their own endings; a literal must still be followed by LF or CR)
                out.count("gen.cr-line-endings");
                check_rescan(&mut out, &format!("{}+cr-endings", w.name), &text, &cfg);
            }
            if out.sample.is_none() && idx < 32 && ok {
                out.sample = Some(json!({"source": w.name, "config": cfg.short(), "input": short(&w.text, 300)}));
            }
        }
        out
    }
}
