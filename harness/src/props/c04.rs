//! C04 — always terminates, never aborts, polynomial work.

use super::common;
use crate::cfg::{Cfg, HUGE_WIDTH};
use crate::exec;
use crate::gen::soup;
use crate::prop::{short, CaseOut, Ctx, Prop, Tier};
use crate::rng::{self, Rng};
use serde_json::json;

pub struct C04;

#[derive(Clone, Copy, Debug, PartialEq)]
enum Seg {
    Exh1,
    Exh2,
    Exh3,
    ExhOpen4,
    Random,
    Mutated,
    Bytes,
    Family,
    Ladder,
    Slow,
    /// token-level mutations of routines nested 12-40 levels deep (thorough tier only: the known
    /// finding deep-nesting-invalid-slow costs minutes per hit)
    DeepMutated,
}

const EXH_BATCH: u64 = 500;

fn plan(tier: Tier) -> Vec<(Seg, u64)> {
    let a = soup::ALPHABET.len() as u64;
    let o = soup::OPENERS.len() as u64;
    let mut v = vec![(Seg::Exh1, 1), (Seg::Exh2, (a * a).div_ceil(EXH_BATCH)), (Seg::Family, soup::FAMILIES.len() as u64), (Seg::Ladder, 6), (Seg::Slow, 4)];
    match tier {
        Tier::Quick => {
            v.push((Seg::Random, 4000));
            v.push((Seg::Mutated, 2500));
            v.push((Seg::Bytes, 400));
        }
        Tier::Thorough => {
            v.push((Seg::Exh3, (a * a * a).div_ceil(EXH_BATCH)));
            v.push((Seg::ExhOpen4, (o * o * o * o).div_ceil(EXH_BATCH)));
            v.push((Seg::Random, 30_000));
            v.push((Seg::Mutated, 20_000));
            v.push((Seg::Bytes, 4_000));
            v.push((Seg::DeepMutated, 24));
        }
    }
    v
}

fn locate(tier: Tier, mut idx: u64) -> Option<(Seg, u64)> {
    for (s, n) in plan(tier) {
        if idx < n {
            return Some((s, idx));
        }
        idx -= n;
    }
    None
}

fn fixed_cfgs() -> Vec<Cfg> {
    let d = Cfg::default();
    vec![
        d.clone(),
        Cfg { wrap_column: 30, ..d.clone() },
        Cfg { wrap_column: 0, always_wrap_begin: true, ..d.clone() },
        Cfg { wrap_column: 1, use_tabs: true, crlf: true, ..d.clone() },
        Cfg { wrap_column: 60, tab_width: 255, continuation_indents: 255, ..d.clone() },
        Cfg { wrap_column: HUGE_WIDTH, tab_width: 0, continuation_indents: 0, format_multiline_strings: false, ..d.clone() },
    ]
}

fn cursors_for(rng: &mut Rng, input: &str) -> Vec<u32> {
    let len = input.len() as u32;
    match rng.below(6) {
        0 => vec![],
        1 => vec![0, len],
        2 => vec![len + 1, len + 1_000_000, u32::MAX],
        3 => {
            // every character boundary of small inputs
            if input.len() <= 64 { input.char_indices().map(|(i, _)| i as u32).chain([len]).collect() } else { vec![len / 2].into_iter().filter(|c| input.is_char_boundary(*c as usize)).collect() }
        }
        _ => {
            let n = rng.range(1, 8);
            let mut v = vec![];
            for _ in 0..n {
                let mut c = rng.below(input.len() + 2);
                while c < input.len() && !input.is_char_boundary(c) {
                    c += 1;
                }
                v.push(c as u32);
            }
            v
        }
    }
}

fn check_one(out: &mut CaseOut, input: &str, cfg: &Cfg, cursors: &[u32], what: &str) {
    out.evals += 1;
    let c0 = exec::thread_cpu_ms();
    let obs = exec::format_obs(cfg, input, cursors, exec::step_budget(input.len()));
    let cpu_ms = exec::thread_cpu_ms() - c0;
    if cpu_ms > 2_000.0 {
        out.count("calls_over_2s_cpu");
        if let Some(dir) = std::env::var_os("VERIF_DUMP_SLOW") {
            let _ = std::fs::create_dir_all(&dir);
            let name = format!("slow-{:016x}.json", rng::hash_str(input));
            let _ = std::fs::write(std::path::Path::new(&dir).join(name), serde_json::to_string(&json!({"input": input, "cfg": cfg.short(), "cpu_ms": cpu_ms, "steps": obs.steps, "what": what})).unwrap());
        }
    }
    if let Err(p) = &obs.out {
        let class = if p.step_limit { "step-limit".to_string() } else { format!("panic:{}", p.location.rsplit('/').next().unwrap_or(&p.location)) };
        let mut v = crate::prop::Violation {
            property: "C04".into(),
            class,
            detail: format!("{what}: {} at {} (cursors {:?}, steps {})", short(&p.message, 160), p.location, short(&format!("{cursors:?}"), 80), obs.steps),
            input: input.to_string(),
            cfg: Some(cfg.clone()),
            extra: json!({"cursors": cursors}),
            case_index: 0,
        };
        if input.len() > 20_000 {
            v.input = short(input, 20_000);
        }
        out.violations.push(v);
    } else {
        if obs.steps > out.counters.get("max_steps_seen").copied().unwrap_or(0) {
            out.counters.insert("max_steps_seen".into(), obs.steps);
        }
        if obs.has_fallback() {
            out.count("calls_with_wrap_fallback");
        }
    }
}

fn nontrivial_key(input: &str) -> Option<u64> {
    // non-trivial: input has a token that opens a construct; distinct by token-text sequence
    let toks = crate::refscan::scan(input);
    let opens = toks.iter().any(|t| {
        let s = t.text(input);
        matches!(t.kind, crate::refscan::RK::Word) && soup::OPENERS.iter().any(|o| o.eq_ignore_ascii_case(s)) || matches!(s, "(" | "[" | "<") || s.starts_with("{$")
    });
    if !opens {
        return None;
    }
    let mut h = 0u64;
    for t in toks.iter().take(64) {
        h = rng::hash_combine(h, rng::hash_str(&t.text(input).to_ascii_lowercase()));
    }
    Some(h)
}

pub fn describe(ctx: &Ctx, idx: u64) -> Option<String> {
    let (seg, local) = locate(ctx.tier, idx)?;
    Some(format!("C04 case {idx}: segment {:?} local index {local}; re-run with `pfmon solo C04 {} {} {idx} <workdir>`", seg, ctx.tier.name(), ctx.seed))
}

/// block openers still open at the deepest point of the text, and whether a bracket or a text
/// literal is left open: the shape of the hostile inputs on which the wrapper's nested searches
/// take minutes to hours (known finding deep-nesting-invalid-slow)
fn nesting_profile(input: &str) -> (usize, bool) {
    use crate::refscan::RK;
    let toks = crate::refscan::scan(input);
    let (mut depth, mut max_depth) = (0usize, 0usize);
    let (mut paren, mut brack) = (0i64, 0i64);
    let mut unbalanced = false;
    for t in &toks {
        let s = t.text(input);
        match t.kind {
            RK::Word => match s.to_ascii_lowercase().as_str() {
                "begin" | "case" | "try" | "repeat" | "record" | "class" | "asm" => {
                    depth += 1;
                    max_depth = max_depth.max(depth);
                }
                "end" | "until" => depth = depth.saturating_sub(1),
                _ => {}
            },
            RK::Op => match s {
                "(" => paren += 1,
                ")" => {
                    paren -= 1;
                    if paren < 0 {
                        unbalanced = true;
                        paren = 0;
                    }
                }
                "[" => brack += 1,
                "]" => {
                    brack -= 1;
                    if brack < 0 {
                        unbalanced = true;
                        brack = 0;
                    }
                }
                _ => {}
            },
            RK::UntermStr => unbalanced = true,
            _ => {}
        }
        if t.unterminated {
            unbalanced = true;
        }
    }
    (max_depth, unbalanced || paren != 0 || brack != 0)
}

/// deepest nesting of anonymous routines (`procedure`/`function` directly after `(`, `,`, `:=` or an
/// operator, up to the `end` of their body) in the text
fn anon_nesting(input: &str) -> usize {
    use crate::refscan::RK;
    let toks = crate::refscan::scan(input);
    // stack of block depths at which an anonymous routine's body began
    let mut stack: Vec<usize> = vec![];
    let mut pending_anon = false;
    let (mut depth, mut max_anon) = (0usize, 0usize);
    let mut prev: Option<String> = None;
    for t in &toks {
        if matches!(t.kind, RK::LineComment | RK::BlockComment | RK::Directive) {
            continue;
        }
        let s = t.text(input).to_ascii_lowercase();
        if t.kind == RK::Word {
            match s.as_str() {
                "procedure" | "function" if prev.as_deref().is_some_and(|p| matches!(p, "(" | "," | ":=" | "+" | "=" | "[")) => pending_anon = true,
                "begin" | "case" | "try" | "repeat" | "asm" => {
                    if s == "begin" && pending_anon {
                        pending_anon = false;
                        stack.push(depth);
                        max_anon = max_anon.max(stack.len());
                    }
                    depth += 1;
                }
                "end" | "until" => {
                    depth = depth.saturating_sub(1);
                    if s == "end" && stack.last() == Some(&depth) {
                        stack.pop();
                    }
                }
                _ => {}
            }
        }
        prev = Some(s);
    }
    max_anon
}

impl Prop for C04 {
    fn classify_hang(&self, input: &str) -> Option<String> {
        // (the slow inputs seen so far are mutated 30-40 level programs; not all of them have an
        // unbalanced bracket, a dropped `:` or `end` is enough, so only the depth is the signature;
        // deep *valid* nesting is covered by the growth monitor and the ladders)
        let (depth, _unbalanced) = nesting_profile(input);
        if anon_nesting(input) >= 2 {
            Some("nested-anonymous-routines-slow".to_string())
        } else if depth >= 12 {
            Some("deep-nesting-invalid-slow".to_string())
        } else {
            None
        }
    }
    fn id(&self) -> &'static str {
        "C04"
    }
    fn cases(&self, ctx: &Ctx) -> u64 {
        plan(ctx.tier).iter().map(|x| x.1).sum()
    }
    fn rule(&self) -> &'static str {
        "exhaustive token sequences over the 120-lexeme alphabet up to length 2 (quick) / 3 plus length 4 over the construct-opening sub-alphabet (thorough), random sequences, mutated/spliced/truncated programs, byte soup, scaling families and nesting ladders, x 6 fixed configurations (rotating) x cursor lists; oracle: the call returns (no panic, no abort, logical step budget 2000*(n+16)^2 not exceeded) and step counts of scaling families grow by at most x16 per doubling. Non-trivial: input contains a construct-opening token; distinct by hash of the first 64 token texts."
    }
    fn floor(&self, tier: Tier) -> u64 {
        tier.pick(5_000, 100_000)
    }
    fn post(&self, ctx: &Ctx) -> Option<CaseOut> {
        if ctx.tier != Tier::Thorough {
            return None;
        }
        let mut out = CaseOut::default();
        crate::sanit::asan_replay(ctx, "C04", &mut out);
        Some(out)
    }
    fn assumptions(&self) -> Vec<String> {
        vec![
            "step hooks (feature verif) are placed in the lexer loop, parser token lookup and wrapper heap loop; loops without a hook are only covered by the CPU-time watchdog".into(),
            "release profile decides; overflow-checked builds are diagnostic only".into(),
        ]
    }
    fn run_case(&self, ctx: &Ctx, idx: u64) -> CaseOut {
        let mut out = CaseOut::default();
        let Some((seg, local)) = locate(ctx.tier, idx) else { return out };
        let mut rng = Rng::derive(ctx.seed, "C04", idx);
        let cfgs = fixed_cfgs();
        match seg {
            Seg::Exh1 | Seg::Exh2 | Seg::Exh3 | Seg::ExhOpen4 => {
                let (alpha, len): (&'static [&'static str], usize) = match seg {
                    Seg::Exh1 => (soup::ALPHABET, 1),
                    Seg::Exh2 => (soup::ALPHABET, 2),
                    Seg::Exh3 => (soup::ALPHABET, 3),
                    _ => (soup::OPENERS, 4),
                };
                let total = (alpha.len() as u64).pow(len as u32);
                let start = local * EXH_BATCH;
                let end = (start + EXH_BATCH).min(total);
                for i in start..end {
                    let seq = soup::exhaustive(alpha, len, i);
                    let input = soup::join(&seq, " ");
                    let cfg = &cfgs[(i % cfgs.len() as u64) as usize];
                    let cur = if i % 7 == 0 { vec![0, (input.len() / 2) as u32, input.len() as u32 + 5] } else { vec![] };
                    let cur: Vec<u32> = cur.into_iter().filter(|c| *c as usize >= input.len() || input.is_char_boundary(*c as usize)).collect();
                    check_one(&mut out, &input, cfg, &cur, "exhaustive");
                    if let Some(h) = nontrivial_key(&input) {
                        out.nontrivial.push(h);
                    }
                    out.count(&format!("exhaustive.len{len}.{}", if len == 4 { "openers" } else { "alphabet" }));
                    if i == 4321 % total {
                        out.sample = Some(json!({"segment": format!("{seg:?}"), "input": input, "config": cfg.short()}));
                    }
                }
                if end == total {
                    out.count("exhaustive_complete");
                }
            }
            Seg::Random => {
                for k in 0..100 {
                    let input = soup::random_seq(&mut rng, 40);
                    let cfg = if rng.chance(1, 4) { Cfg::sample(&mut rng) } else { cfgs[rng.below(cfgs.len())].clone() };
                    let cur = cursors_for(&mut rng, &input);
                    check_one(&mut out, &input, &cfg, &cur, "random-seq");
                    if let Some(h) = nontrivial_key(&input) {
                        out.nontrivial.push(h);
                    }
                    out.count("gen.random-seq");
                    if k == 0 && local == 0 {
                        out.sample = Some(json!({"segment": "Random", "input": short(&input, 200), "config": cfg.short(), "cursors": cur}));
                    }
                }
            }
            Seg::Mutated => {
                for k in 0..40 {
                    let (input, kind) = loop {
                        let (i, k) = common::any_input(ctx, &mut rng);
                        if k != "well-formed" || rng.chance(1, 4) {
                            break (i, k);
                        }
                    };
                    let cfg = if rng.chance(1, 3) { Cfg::sample(&mut rng) } else { cfgs[rng.below(cfgs.len())].clone() };
                    let cur = cursors_for(&mut rng, &input);
                    check_one(&mut out, &input, &cfg, &cur, kind);
                    if let Some(h) = nontrivial_key(&input) {
                        out.nontrivial.push(h);
                    }
                    out.count(&format!("gen.{kind}"));
                    if k == 0 && local == 0 {
                        out.sample = Some(json!({"segment": "Mutated", "kind": kind, "input": short(&input, 300), "config": cfg.short()}));
                    }
                }
                // truncation at every character boundary of one seed
                if local % 10 == 0 && !ctx.seeds.is_empty() {
                    let s = &ctx.seeds[(local as usize / 10) % ctx.seeds.len()];
                    if s.text.len() < 600 {
                        for (i, _) in s.text.char_indices() {
                            check_one(&mut out, &s.text[..i], &cfgs[i % cfgs.len()], &[], "truncation-sweep");
                            out.count("gen.truncation-sweep");
                        }
                    }
                }
            }
            Seg::DeepMutated => {
                for _ in 0..4 {
                    let base = common::deep_program(&mut rng);
                    let input = if rng.chance(1, 4) { base } else { soup::mutate(&mut rng, &base) };
                    let cfg = if rng.chance(1, 3) { Cfg::sample(&mut rng) } else { cfgs[rng.below(cfgs.len())].clone() };
                    check_one(&mut out, &input, &cfg, &[], "deep-mutated");
                    out.count("gen.deep-mutated");
                    if let Some(h) = nontrivial_key(&input) {
                        out.nontrivial.push(h);
                    }
                }
            }
            Seg::Bytes => {
                for _ in 0..100 {
                    let input = soup::byte_soup(&mut rng, 200);
                    let cfg = cfgs[rng.below(cfgs.len())].clone();
                    let cur = cursors_for(&mut rng, &input);
                    check_one(&mut out, &input, &cfg, &cur, "byte-soup");
                    if let Some(h) = nontrivial_key(&input) {
                        out.nontrivial.push(h);
                    }
                    out.count("gen.byte-soup");
                }
            }
            Seg::Family => {
                let name = soup::FAMILIES[local as usize];
                let sizes: &[usize] = ctx.tier.pick(&[8, 16, 32, 64, 128], &[8, 16, 32, 64, 128, 256]);
                for cfg in [Cfg::default(), Cfg { wrap_column: 30, ..Cfg::default() }] {
                    let mut prev: Option<(usize, u64)> = None;
                    let mut prev_cpu: Option<(usize, f64)> = None;
                    let mut series = vec![];
                    for &n in sizes {
                        let input = soup::family(name, n);
                        out.evals += 1;
                        let c0 = exec::thread_cpu_ms();
                        let obs = exec::format_obs(&cfg, &input, &[], exec::step_budget(input.len()));
                        let cpu_ms = exec::thread_cpu_ms() - c0;
                        match &obs.out {
                            Ok(_) => {
                                series.push((n, obs.steps, obs.parser_passes(), cpu_ms));
                                if let Some((pn, pms)) = prev_cpu {
                                    // CPU time (not wall clock) of this thread; only judged when large enough to be stable
                                    if pn * 2 == n && pms >= 40.0 && cpu_ms > pms * 16.0 {
                                        out.violate(
                                            "C04",
                                            &format!("superpolynomial-growth:{name}"),
                                            format!("family {name}: cpu({n}) = {cpu_ms:.0} ms > 16 x cpu({pn}) = {pms:.0} ms"),
                                            &short(&input, 2000),
                                            Some(&cfg),
                                        );
                                    }
                                }
                                prev_cpu = Some((n, cpu_ms));
                                let branches = input.matches("{$IF").count() + input.matches("{$ELSE").count();
                                if obs.parser_passes() > branches + 1 {
                                    out.violate("C04", &format!("too-many-passes:{name}"), format!("family {name} n={n}: {} parser passes for {branches} conditional branches", obs.parser_passes()), &short(&input, 2000), Some(&cfg));
                                }
                                if let Some((pn, ps)) = prev {
                                    if pn * 2 == n && ps > 2000 && obs.steps > ps.saturating_mul(16) {
                                        out.violate(
                                            "C04",
                                            &format!("superpolynomial-growth:{name}"),
                                            format!("family {name}: steps({n}) = {} > 16 x steps({pn}) = {}", obs.steps, ps),
                                            &short(&input, 2000),
                                            Some(&cfg),
                                        );
                                    }
                                }
                                prev = Some((n, obs.steps));
                            }
                            Err(p) if p.step_limit => {
                                out.violate("C04", &format!("step-limit:{name}"), format!("family {name} n={n} ({} bytes): more than {} logical steps", input.len(), exec::step_budget(input.len())), &short(&input, 6000), Some(&cfg));
                                // larger members of the family would only take longer
                                break;
                            }
                            Err(p) => {
                                out.violate("C04", &format!("panic:{}", p.location.rsplit('/').next().unwrap_or("")), format!("family {name} n={n}: {}", p.message), &short(&input, 2000), Some(&cfg));
                            }
                        }
                        out.nontrivial.push(rng::hash_str(&format!("{name}{n}{}", cfg.short())));
                    }
                    out.count("families_measured");
                    if cfg.wrap_column == 30 {
                        out.sample = Some(json!({"family": name, "config": cfg.short(), "(n, steps, parser passes, cpu ms)": series}));
                    }
                }
            }
            Seg::Ladder => {
                // moderate nesting must work in-process (this thread has the 2 MiB stack of a
                // rayon worker); deeper ladders run through the real binary in a child process
                // because a stack overflow cannot be caught
                let fams = ["nested-ifdef", "nested-begin", "nested-if-then", "nested-if-expr-directive", "nested-parens", "nested-brackets"];
                let name = fams[local as usize % fams.len()];
                let expr_family = matches!(name, "nested-parens" | "nested-brackets");
                for depth in if expr_family { [50usize, 200] } else { [100usize, 400] } {
                    let input = soup::family(name, depth);
                    check_one(&mut out, &input, &Cfg::default(), &[], "ladder");
                    out.nontrivial.push(rng::hash_str(&format!("ladder{name}{depth}")));
                }
                out.count("ladders_in_process");
                if !expr_family || ctx.tier == Tier::Thorough {
                    match deep_ladder(ctx, name, expr_family) {
                        LadderResult::AbortAt(first_abort, sig) => {
                            out.add(&format!("ladder.first_aborting_depth.{name}"), first_abort as u64);
                            out.violate(
                                "C04",
                                "deep-recursion",
                                format!("family {name}: `pasfmt <file>` is killed by signal {sig} (stack overflow in recursive descent) at nesting depth {first_abort}; depth 400 works"),
                                &format!("soup::family({name:?}, {first_abort}) written to a .pas file"),
                                Some(&Cfg::default()),
                            );
                        }
                        LadderResult::Survived(max) => out.add(&format!("ladder.survived_depth.{name}"), max as u64),
                        LadderResult::Unknown => out.count("ladder.unknown"),
                    }
                }
            }
            Seg::Slow => {
                // F12 shape: bounded but slow searches must still finish within the step budget
                let n = [4usize, 8, 12, 16][local as usize % 4];
                let input = soup::family("anon-arg-calls", n);
                check_one(&mut out, &input, &Cfg { wrap_column: 60, ..Cfg::default() }, &[], "slow-shape");
                out.nontrivial.push(rng::hash_str(&format!("slow{n}")));
            }
        }
        out
    }
}

enum LadderResult {
    AbortAt(usize, i32),
    Survived(usize),
    Unknown,
}

/// run the real binary (files mode, i.e. on a rayon worker thread) on ladders of growing depth in
/// a child process; report the first depth that kills the process
fn deep_ladder(ctx: &Ctx, name: &str, expr_family: bool) -> LadderResult {
    use std::process::{Command, Stdio};
    if !ctx.cli_bin.exists() {
        return LadderResult::Unknown;
    }
    let depths: &[usize] = if expr_family { &[500] } else { ctx.tier.pick(&[1_000, 4_000, 16_000], &[1_000, 2_000, 4_000, 8_000, 16_000, 32_000]) };
    let dir = ctx.work_dir.join(format!("ladder-{name}-{}", std::process::id()));
    let _ = std::fs::create_dir_all(&dir);
    let mut survived = 0;
    let mut result = None;
    for &d in depths {
        let input = soup::family(name, d);
        let path = dir.join("ladder.pas");
        if std::fs::write(&path, &input).is_err() {
            result = Some(LadderResult::Unknown);
            break;
        }
        let Ok(mut child) = Command::new(&ctx.cli_bin).arg(&path).current_dir(&dir).stdin(Stdio::null()).stdout(Stdio::null()).stderr(Stdio::null()).spawn() else {
            result = Some(LadderResult::Unknown);
            break;
        };
        let t0 = std::time::Instant::now();
        let status = loop {
            match child.try_wait() {
                Ok(Some(st)) => break Some(st),
                Ok(None) => {
                    if t0.elapsed().as_secs() > 90 {
                        let _ = child.kill();
                        let _ = child.wait();
                        break None;
                    }
                    std::thread::sleep(std::time::Duration::from_millis(20));
                }
                Err(_) => break None,
            }
        };
        use std::os::unix::process::ExitStatusExt;
        match status {
            Some(st) if st.signal().is_some() => {
                result = Some(LadderResult::AbortAt(d, st.signal().unwrap()));
                break;
            }
            Some(_) => survived = d,
            None => break, // too slow to tell: not a verdict
        }
    }
    let _ = std::fs::remove_dir_all(&dir);
    result.unwrap_or(if survived > 0 { LadderResult::Survived(survived) } else { LadderResult::Unknown })
}
