//! C15 — cursor tracking.

use super::common;
use crate::cfg::Cfg;
use crate::exec;
use crate::prop::{short, CaseOut, Ctx, Prop, Tier};
use crate::refscan::NbIndex;
use crate::rng::{self, Rng};
use pasfmt_core::prelude::*;
use serde_json::json;

pub struct C15;

fn cursor_list(rng: &mut Rng, input: &str) -> Vec<u32> {
    let len = input.len();
    let mut v: Vec<u32> = vec![];
    let boundary = |mut c: usize| {
        while c < len && !input.is_char_boundary(c) {
            c += 1;
        }
        c as u32
    };
    match rng.below(6) {
        0 => {
            v.extend([0, len as u32]);
        }
        1 => {
            v.extend([len as u32 + 1, len as u32 + 1_000_000, u32::MAX]);
        }
        2 if len <= 400 => {
            // every character boundary
            v.extend(input.char_indices().map(|(i, _)| i as u32));
            v.push(len as u32);
            v.truncate(64 * 8);
        }
        3 => {
            // duplicates and unsorted
            let a = boundary(rng.below(len + 1));
            let b = boundary(rng.below(len + 1));
            v.extend([b, a, a, b, 0]);
        }
        _ => {
            let n = rng.range(1, 64);
            for _ in 0..n {
                v.push(boundary(rng.below(len + 2)));
            }
        }
    }
    v
}

/// `pasfmt --cursor a,b,c`: the CURSOR= line on stderr must carry what the library reports, in
/// the given order; with more than one file the cursors are dropped
fn cli_case(ctx: &Ctx, rng: &mut Rng, out: &mut CaseOut) {
    use crate::cli::{self, Invocation, Scratch};
    let scratch = Scratch::new(&ctx.work_dir, "c15");
    for _ in 0..4 {
        let w = common::well_formed(ctx, rng, 12);
        let cfg = Cfg::sample_sane(rng);
        let mut cursors = cursor_list(rng, &w.text);
        cursors.truncate(16);
        if cursors.is_empty() {
            continue;
        }
        let lib = exec::format_obs(&cfg, &w.text, &cursors, exec::SOFT_STEP_LIMIT);
        let Ok(lib_out) = &lib.out else { continue };
        let mut args = cfg.to_cli_args();
        args.push("--cursor".into());
        args.push(cursors.iter().map(|c| c.to_string()).collect::<Vec<_>>().join(","));
        out.evals += 2;
        out.count("cli.cursor_runs");
        let r = cli::run(Invocation { bin: &ctx.cli_bin, args: args.clone(), cwd: &scratch.path, stdin: Some(w.text.as_bytes().to_vec()), env: vec![], as_nobody: false });
        if !r.ok() {
            continue;
        }
        if r.stdout != lib_out.as_bytes() {
            out.violate("C15", "cli-cursors-change-output", format!("[{}] the binary's output with --cursor differs from the library's output", cfg.short()), &w.text, Some(&cfg));
        }
        let line = r.stderr_text().lines().find_map(|l| l.strip_prefix("CURSOR=").map(|s| s.to_string()));
        let expect = lib.cursors.iter().map(|c| c.to_string()).collect::<Vec<_>>().join(",");
        match line {
            Some(l) if l == expect => {}
            other => out.violate("C15", "cli-cursor-line", format!("[{}] stderr CURSOR line {:?}, library reports {:?} for cursors {:?}", cfg.short(), other, expect, cursors), &w.text, Some(&cfg)),
        }
        // two files: cursors cannot be tracked and must be dropped, files still formatted
        let a = scratch.path.join("a.pas");
        let b = scratch.path.join("b.pas");
        let _ = std::fs::write(&a, &w.text);
        let _ = std::fs::write(&b, &w.text);
        let mut args2 = cfg.to_cli_args();
        args2.extend(["--cursor".to_string(), "1".to_string(), "--".to_string(), "a.pas".to_string(), "b.pas".to_string()]);
        let r2 = cli::run(Invocation { bin: &ctx.cli_bin, args: args2, cwd: &scratch.path, stdin: None, env: vec![], as_nobody: false });
        if r2.ok() {
            if r2.stderr_text().lines().any(|l| l.starts_with("CURSOR=")) {
                out.violate("C15", "cli-cursor-not-dropped", format!("[{}] CURSOR line printed although two files were formatted", cfg.short()), &w.text, Some(&cfg));
            }
            if std::fs::read(&a).unwrap_or_default() != lib_out.as_bytes() {
                out.violate("C15", "cli-cursors-change-output", format!("[{}] file formatted with a dropped --cursor differs from the library's output", cfg.short()), &w.text, Some(&cfg));
            }
        }
        out.nontrivial.push(rng::hash_combine(rng::hash_str(&w.text), cursors[0] as u64));
    }
}

impl Prop for C15 {
    fn id(&self) -> &'static str {
        "C15"
    }
    fn cases(&self, ctx: &Ctx) -> u64 {
        ctx.tier.pick(15_000, 150_000)
    }
    fn rule(&self) -> &'static str {
        "all generators x sampled configurations x cursor lists (0, end, beyond the end up to u32::MAX, every character boundary of small inputs, random boundaries, duplicates, unsorted, up to 64 cursors); oracles: output text equal with and without cursors; every reported cursor <= output length and on a character boundary; a cursor with token.start < c <= token.end (pasfmt's own tokenisation of the input) whose token text is unchanged at its place in the output (located by non-blank ordinal) is reported at the same offset inside that token; cursors beyond the end of the input are reported at the end of the output. Non-trivial: cursor strictly inside the text whose token moved; distinct by (input, cursor)."
    }
    fn floor(&self, tier: Tier) -> u64 {
        tier.pick(5_000, 100_000)
    }
    fn needs_cli(&self) -> bool {
        true
    }
    fn run_case(&self, ctx: &Ctx, idx: u64) -> CaseOut {
        let mut out = CaseOut::default();
        let mut rng = Rng::derive(ctx.seed, "C15", idx);
        if idx % 25 == 24 && ctx.cli_bin.exists() {
            cli_case(ctx, &mut rng, &mut out);
            return out;
        }
        for k in 0..16 {
            let (input, kind) = if rng.chance(1, 8) {
                // verbatim material (asm bodies, off regions) with trailing blanks, comments and all three
                // line-end styles: cursor arithmetic over whitespace that is copied, not generated
                let body = *rng.pick(super::c07::ASM_BODIES);
                let text = match rng.below(6) {
                    5 => "a; // c\n// d\nb; // e\n  // f\n{ g }\nc;\n".to_string(),
                    // no final line break, last token a line comment inside an open region / after code
                    3 => "begin\n  A := 1; // pasfmt off\n  B   :=   2; // x".to_string(),
                    4 => "begin\n  A   :=  1;\nend. // done".to_string(),
                    0 => format!("procedure P;\nbegin\n  X:=1;\n  asm\n    {body}  \n  end;\n  Y   :=  2;\nend;\n"),
                    1 => "begin\n  A := 1; // pasfmt off\n  B   :=   2; // x \n  // y\n\n  C := 3; { pasfmt on }\n  D:=4;\nend.\n".to_string(),
                    _ => format!("begin\n  {{pasfmt off}}\n  asm\n  {body}\n  end; // c\n  {{pasfmt on}} Z:=1;\nend.\n"),
                };
                let text = match rng.below(3) {
                    0 => text,
                    1 => text.replace("\r\n", "\n").replace('\n', "\r\n"),
                    _ => text.replace("\r\n", "\n").replace('\n', "\r"),
                };
                (text, "verbatim-material")
            } else if rng.chance(3, 5) {
                let w = common::well_formed(ctx, &mut rng, 20);
                (w.text, if w.prog.is_some() { "gram" } else { "seed" })
            } else {
                common::any_input(ctx, &mut rng)
            };
            let cfg = Cfg::sample(&mut rng);
            out.count(&format!("gen.{kind}"));
            let cursors = cursor_list(&mut rng, &input);
            let Some((plain, _)) = common::run(&mut out, &cfg, &input) else { continue };
            out.evals += 1;
            let obs = exec::format_obs(&cfg, &input, &cursors, exec::SOFT_STEP_LIMIT);
            let with = match &obs.out {
                Ok(s) => s.clone(),
                Err(p) => {
                    if !p.step_limit {
                        out.violate("C15", "panic-with-cursors", format!("[{}] call with cursors panicked ({} at {}) although the call without cursors returned", cfg.short(), short(&p.message, 100), p.location), &input, Some(&cfg));
                    }
                    continue;
                }
            };
            if with != plain {
                out.violate("C15", "cursors-change-output", format!("{kind} [{}] output differs when cursors {:?} are tracked", cfg.short(), short(&format!("{cursors:?}"), 80)), &input, Some(&cfg));
                continue;
            }
            // token map of the input by pasfmt's own scan
            let Ok(toks) = exec::lex(&input) else { continue };
            let mut spans = Vec::with_capacity(toks.len());
            let mut pos = 0usize;
            for t in &toks {
                let ws = t.get_leading_whitespace().len();
                let l = t.get_content().len();
                spans.push((pos + ws, pos + ws + l));
                pos += ws + l;
            }
            let nb_in = NbIndex::new(&input);
            let nb_out = NbIndex::new(&plain);
            let same_chars = nb_in.len() == nb_out.len();
            for (ci, (&c_in, &c_out)) in cursors.iter().zip(obs.cursors.iter()).enumerate() {
                out.count("cursors_checked");
                let (c_in, c_out) = (c_in as usize, c_out as usize);
                if c_out > plain.len() || !plain.is_char_boundary(c_out) {
                    out.violate("C15", "cursor-out-of-range", format!("{kind} [{}] cursor #{ci} {c_in} -> {c_out}: beyond the output (len {}) or off a character boundary", cfg.short(), plain.len()), &input, Some(&cfg));
                    break;
                }
                if c_in > input.len() {
                    out.count("cursors_beyond_end");
                    if c_out != plain.len() {
                        out.violate("C15", "beyond-end-not-at-end", format!("{kind} [{}] cursor #{ci} {c_in} is beyond the input (len {}) but is reported at {c_out}, output length {}", cfg.short(), input.len(), plain.len()), &input, Some(&cfg));
                        break;
                    }
                    continue;
                }
                if !same_chars {
                    continue;
                }
                // token with start < c <= end
                let ti = spans.partition_point(|s| s.1 < c_in);
                let Some(&(s, e)) = spans.get(ti) else { continue };
                if !(s < c_in && c_in <= e) || s == e {
                    out.count("cursors_in_blanks");
                    continue;
                }
                let ord = nb_in.ordinal_at(s);
                let Some(os) = nb_out.offset_of(ord) else { continue };
                let text = &input[s..e];
                if plain.get(os..os + text.len()) != Some(text) {
                    out.count("cursors_in_changed_tokens");
                    continue;
                }
                out.count("cursors_in_unchanged_tokens");
                let expect = os + (c_in - s);
                if c_out != expect {
                    out.violate(
                        "C15",
                        "cursor-left-its-token",
                        format!("{kind} [{}] cursor #{ci} at {c_in} is at offset {} of unchanged token {:?}; token starts at {os} in the output so {expect} was expected, reported {c_out}", cfg.short(), c_in - s, short(text, 40)),
                        &input,
                        Some(&cfg),
                    );
                    break;
                }
                if os != s && c_in > 0 && c_in < input.len() {
                    out.nontrivial.push(rng::hash_combine(rng::hash_str(&input), c_in as u64));
                }
            }
            if out.sample.is_none() && idx < 32 {
                out.sample = Some(json!({"generator": kind, "config": cfg.short(), "input": short(&input, 160), "cursors in": cursors.iter().take(12).collect::<Vec<_>>(), "cursors out": obs.cursors.iter().take(12).collect::<Vec<_>>()}));
            }
        }
        out
    }
}
