//! C06 — output independent of input line wrapping and spacing.

use super::common;
use crate::cfg::Cfg;
use crate::gen::layout::{Layout, Style};
use crate::prop::{short, CaseOut, Ctx, Prop, Tier};
use crate::rng::{self, Rng};
use serde_json::json;

pub struct C06;

/// reduce a failing re-layout to few changed gaps: greedily revert gaps to the base layout
fn minimise(base: &Layout, other: &Layout, cfg: &Cfg, fx: &str, out: &mut CaseOut) -> Layout {
    let mut cur = other.clone();
    let diffs: Vec<usize> = (0..base.gaps.len()).filter(|&i| base.gaps[i] != other.gaps[i]).collect();
    if diffs.len() > 400 {
        return cur;
    }
    // delta-debugging style: try reverting halves, then singles
    let mut chunk = diffs.len().div_ceil(2).max(1);
    let mut remaining = diffs;
    while !remaining.is_empty() {
        let mut progressed = false;
        let mut i = 0;
        while i < remaining.len() {
            let end = (i + chunk).min(remaining.len());
            let mut trial = cur.clone();
            for &g in &remaining[i..end] {
                trial.gaps[g] = base.gaps[g].clone();
            }
            let still = match common::run(out, cfg, &trial.render()) {
                Some((o, _)) => o != fx,
                None => false,
            };
            if still {
                cur = trial;
                remaining.drain(i..end);
                progressed = true;
            } else {
                i = end;
            }
        }
        if chunk == 1 && !progressed {
            break;
        }
        chunk = (chunk / 2).max(1);
        if remaining.len() <= 1 && !progressed {
            break;
        }
    }
    cur
}

impl Prop for C06 {
    fn id(&self) -> &'static str {
        "C06"
    }
    fn cases(&self, ctx: &Ctx) -> u64 {
        ctx.tier.pick(20_000, 250_000)
    }
    fn rule(&self) -> &'static str {
        "well-formed programs (grammar programs in decorated layouts, data-test seeds re-tokenised with the reference scanner) x 2-4 admissible re-layouts each (all on one line, one token per line, random gaps: token order kept, gaps touching a comment kept, gaps with >= 2 line breaks keep their count, verbatim regions and asm bodies untouched) x sampled configurations; oracle: F(x) == F(relayout(x)) byte for byte, failing re-layouts are minimised to the responsible gaps. Non-trivial: the re-layout changed >= 3 gaps; distinct by hash of (program, re-layout, configuration)."
    }
    fn floor(&self, tier: Tier) -> u64 {
        tier.pick(3_000, 50_000)
    }
    fn run_case(&self, ctx: &Ctx, idx: u64) -> CaseOut {
        let mut out = CaseOut::default();
        let mut rng = Rng::derive(ctx.seed, "C06", idx);
        for k in 0..8 {
            let w = common::well_formed(ctx, &mut rng, 30);
            let mut cfg = Cfg::sample_sane(&mut rng);
            if let Some(sw) = w.seed_width {
                if rng.bool() {
                    cfg.wrap_column = sw;
                }
            }
            let base = match &w.layout {
                Some(l) => l.clone(),
                None => Layout::from_text(&w.text),
            };
            out.count(if w.prog.is_some() { "gen.gram" } else { "gen.seed" });
            common::cfg_hist(&mut out, &cfg);
            let Some((fx, o0)) = common::run(&mut out, &cfg, &w.text) else { continue };
            let styles = [Style::OneLine, Style::TokenPerLine, Style::Random, Style::Random];
            let n_re = rng.range(2, 4);
            for r in 0..n_re {
                let style = styles[(r + k) % styles.len()];
                let (l2, changed) = base.relayout(&mut rng, style, true);
                if changed == 0 {
                    continue;
                }
                let x2 = l2.render();
                let Some((fy, o1)) = common::run(&mut out, &cfg, &x2) else { continue };
                out.count(&format!("relayout.{style:?}"));
                out.add("gaps_changed", changed as u64);
                if fy != fx {
                    let fallback = o0.has_fallback() || o1.has_fallback();
                    let min = if fallback { l2.clone() } else { minimise(&base, &l2, &cfg, &fx, &mut out) };
                    let culprit_idx: Vec<usize> = (0..base.gaps.len()).filter(|&i| base.gaps[i] != min.gaps[i]).collect();
                    let is_literal = |t: &str| t.starts_with('\'') || t.starts_with('#') || t.chars().next().is_some_and(|c| c.is_ascii_digit() || c == '$' || c == '%');
                    let literal_bracket = !culprit_idx.is_empty()
                        && culprit_idx.iter().all(|&i| i > 0 && i < base.pieces.len() && is_literal(&base.pieces[i - 1].text) && matches!(base.pieces[i].text.as_str(), "[" | "("));
                    let culprit: Vec<String> = (0..base.gaps.len())
                        .filter(|&i| base.gaps[i] != min.gaps[i])
                        .take(4)
                        .map(|i| {
                            let prev = if i > 0 { base.pieces[i - 1].text.as_str() } else { "<start>" };
                            let next = base.pieces.get(i).map(|p| p.text.as_str()).unwrap_or("<end>");
                            format!("gap between {:?} and {:?}: {:?} -> {:?}", short(prev, 24), short(next, 24), base.gaps[i], min.gaps[i])
                        })
                        .collect();
                    let mut v = crate::prop::Violation {
                        property: "C06".into(),
                        class: if fallback {
                            "wrap-fallback".into()
                        } else if literal_bracket {
                            "literal-bracket-spacing".into()
                        } else {
                            "layout-dependent".into()
                        },
                        detail: format!("{} [{}] outputs differ after re-layout; responsible gap(s): {}", w.name, cfg.short(), culprit.join("; ")),
                        input: w.text.clone(),
                        cfg: Some(cfg.clone()),
                        extra: json!({"relayout": min.render()}),
                        case_index: 0,
                    };
                    if v.detail.len() > 1200 {
                        v.detail = short(&v.detail, 1200);
                    }
                    out.violations.push(v);
                }
                if changed >= 3 {
                    out.nontrivial.push(rng::hash_combine(rng::hash_str(&x2), rng::hash_str(&cfg.short())));
                }
                if out.sample.is_none() && idx < 32 {
                    out.sample = Some(json!({"source": w.name, "config": cfg.short(), "layout A": short(&w.text, 200), "layout B": short(&x2, 200), "gaps changed": changed, "same output": fy == fx}));
                }
            }
        }
        out
    }
}
