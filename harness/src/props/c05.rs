//! C05 — block structure rendered one statement per line at its depth.

use super::common;
use super::wf;
use crate::cfg::Cfg;
use crate::gen::gram::{Block, BlockKind, Program};
use crate::gen::layout::{DecoOpts, Layout, Style};
use crate::oracle::line_lead;
use crate::prop::{excerpt, short, CaseOut, Ctx, Prop, Tier};
use crate::refscan::NbIndex;
use crate::rng::{self, Rng};
use serde_json::json;

pub struct C05;

struct Placed<'a> {
    out: &'a str,
    /// byte offset in the output of each program token
    off: Vec<usize>,
    /// non-blank ordinal of each program token
    ord: Vec<usize>,
}

impl<'a> Placed<'a> {
    fn lead(&self, tok: usize) -> (&'a str, bool) {
        line_lead(self.out, self.off[tok])
    }
    fn same_line(&self, a: usize, b: usize) -> bool {
        let (x, y) = (self.off[a].min(self.off[b]), self.off[a].max(self.off[b]));
        !self.out[x..y].contains(['\n', '\r'])
    }
}

fn place<'a>(prog: &Program, lay: &Layout, input: &str, out: &'a str) -> Option<Placed<'a>> {
    let nb_in = NbIndex::new(input);
    let nb_out = NbIndex::new(out);
    if nb_in.len() != nb_out.len() {
        return None;
    }
    let spans = lay.spans();
    let tp = lay.tok_piece(prog.toks.len());
    let mut off = Vec::with_capacity(prog.toks.len());
    let mut ord = Vec::with_capacity(prog.toks.len());
    for t in 0..prog.toks.len() {
        let p = tp[t];
        if p == usize::MAX {
            return None;
        }
        let o = nb_in.ordinal_at(spans[p].0);
        ord.push(o);
        off.push(nb_out.offset_of(o)?);
    }
    Some(Placed { out, off, ord })
}

struct Finding {
    class: &'static str,
    detail: String,
    ord: usize,
    kind: BlockKind,
    /// the block is, or lies in, the body of an anonymous routine
    in_anon: bool,
}

fn check_block(prog: &Program, b: &Block, pl: &Placed, cfg: &Cfg, cond_wrapped: &std::collections::HashSet<usize>, findings: &mut Vec<Finding>, stats: &mut CaseOut) {
    let unit = cfg.indent_unit_str();
    let (olead, ofirst) = pl.lead(b.opener);
    // anchor: the opener itself if it starts its line, otherwise the first candidate that does
    let mut anchor: Option<&str> = if ofirst { Some(olead) } else { None };
    let mut header: Option<&str> = None;
    for &a in &b.anchors {
        if a == b.opener {
            continue;
        }
        let (l, f) = pl.lead(a);
        if f {
            header = Some(l);
            break;
        }
    }
    if anchor.is_none() {
        anchor = header;
    }
    // type bodies are anchored at the declared name, not at `class`/`record`
    if b.kind == BlockKind::TypeBody {
        anchor = header;
    }
    // anonymous routine bodies with at most one statement are laid out as part of the
    // surrounding expression (kept inline when they fit); this also affects what is nested in them
    // (a statement wrapped in a conditional directive is absent in the pass that does not take the
    // branch, so a body counts as single-statement when at most one statement is unconditional)
    let inline_anon = prog.blocks.iter().any(|a| a.kind == BlockKind::AnonBegin && a.items.iter().filter(|it| !cond_wrapped.contains(it)).count() <= 1 && a.opener <= b.opener && a.closer.is_some_and(|c| c >= b.opener));
    let in_anon = prog.blocks.iter().any(|a| a.kind == BlockKind::AnonBegin && a.opener <= b.opener && a.closer.is_some_and(|c| c >= b.opener));
    let Some(anchor) = anchor else {
        stats.count("blocks_unanchored");
        return;
    };
    stats.count("blocks_checked");
    let what = |t: usize| format!("{:?} (…{}…)", prog.toks[t].text, excerpt(pl.out, pl.off[t], 50).replace('\n', "⏎"));
    // always_wrap: the begin of a control-flow body starts its own line at the header's indentation
    if b.kind == BlockKind::CtrlBegin && cfg.always_wrap_begin {
        if !ofirst {
            findings.push(Finding { class: "begin-not-wrapped", detail: format!("begin_style=always_wrap but control-flow `begin` is not first on its line: {}", what(b.opener)), ord: pl.ord[b.opener], kind: b.kind, in_anon });
        } else if let Some(h) = header {
            if h != olead {
                findings.push(Finding { class: "begin-indentation", detail: format!("always_wrap `begin` indented {:?} but its controlling statement {:?}: {}", olead, h, what(b.opener)), ord: pl.ord[b.opener], kind: b.kind, in_anon });
            }
        }
    }
    let expect_item = format!("{anchor}{unit}");
    for &it in &b.items {
        let (l, f) = pl.lead(it);
        stats.count("items_checked");
        if !f {
            findings.push(Finding {
                class: if inline_anon { "anon-single-statement-body" } else { "statement-not-on-own-line" },
                detail: format!("{:?} item does not start its line: {}", b.kind, what(it)),
                ord: pl.ord[it],
                kind: b.kind,
                in_anon,
            });
        } else if l != expect_item {
            findings.push(Finding {
                class: if inline_anon { "anon-single-statement-body" } else { "wrong-depth" },
                detail: format!("{:?} item indented {:?}, expected {:?} (opener line {:?} + one unit): {}", b.kind, l, expect_item, anchor, what(it)),
                ord: pl.ord[it],
                kind: b.kind,
                in_anon,
            });
        }
    }
    if let Some(c) = b.closer {
        let (l, f) = pl.lead(c);
        stats.count("closers_checked");
        if !f {
            findings.push(Finding {
                class: if inline_anon { "anon-single-statement-body" } else { "closer-not-on-own-line" },
                detail: format!("{:?} closer is not first on its line: {}", b.kind, what(c)),
                ord: pl.ord[c],
                kind: b.kind,
                in_anon,
            });
        } else if l != anchor {
            findings.push(Finding { class: if inline_anon { "anon-single-statement-body" } else { "closer-indentation" }, detail: format!("{:?} closer indented {:?}, opener line {:?}: {}", b.kind, l, anchor, what(c)), ord: pl.ord[c], kind: b.kind, in_anon });
        }
    }
}

impl Prop for C05 {
    fn id(&self) -> &'static str {
        "C05"
    }
    fn cases(&self, ctx: &Ctx) -> u64 {
        ctx.tier.pick(20_000, 300_000)
    }
    fn rule(&self) -> &'static str {
        "grammar programs whose statements/members, block openers and closers are known by construction (begin/end, repeat/until, try sections, case-else, const/var/type sections, class/record bodies and visibility sections, anonymous routine bodies) in canonical, one-line, one-token-per-line and random layouts with comments and directives between statements x widths 20..huge x begin_style; marked tokens are found in the output by non-blank ordinal; oracle: each item is first on its line at (opener line indentation + one unit), closers first on their line at the opener line's indentation, always_wrap begins alone at the header's indentation. Non-trivial: program has nesting depth >= 2 and >= 5 marked items; distinct by hash of block kinds/sizes + configuration."
    }
    fn floor(&self, tier: Tier) -> u64 {
        tier.pick(2_000, 40_000)
    }
    fn run_case(&self, ctx: &Ctx, idx: u64) -> CaseOut {
        let mut out = CaseOut::default();
        let mut rng = Rng::derive(ctx.seed, "C05", idx);
        for k in 0..10 {
            let mut deco = match rng.below(3) {
                0 => DecoOpts::none(),
                1 => DecoOpts::heavy(),
                _ => DecoOpts::light(),
            };
            // own-line comments in the middle of statements are not part of C05's quantifier (layouts of
            // the program, comments between statements); they are exercised by C02 and C14
            deco.odd_comment = 0;
            let w = common::gram_case(&mut rng, 35, &deco);
            let prog = w.prog.as_ref().unwrap();
            let mut lay = w.layout.clone().unwrap();
            if rng.chance(1, 2) {
                let style = *rng.pick(&[Style::OneLine, Style::TokenPerLine, Style::Random]);
                lay = lay.relayout(&mut rng, style, true).0;
                out.count(&format!("layout.{style:?}"));
            } else {
                out.count("layout.Canonical");
            }
            let input = lay.render();
            let mut cfg = Cfg::sample_sane(&mut rng);
            cfg.wrap_column = *rng.pick(&[20u32, 30, 40, 60, 80, 120, 120, crate::cfg::HUGE_WIDTH]);
            common::cfg_hist(&mut out, &cfg);
            let Some((output, obs)) = common::run(&mut out, &cfg, &input) else { continue };
            let Some(pl) = place(prog, &lay, &input, &output) else {
                out.count("unplaceable_outputs");
                continue;
            };
            let fb = wf::fallback_nb_ranges(&input, &obs);
            let header_anon_ords: Vec<(usize, usize)> = prog.header_anon_stmts.iter().map(|(a, b)| (pl.ord[*a], pl.ord[*b])).collect();
            let raise_anon_ords: Vec<(usize, usize)> = prog.raise_anon_stmts.iter().map(|(a, b)| (pl.ord[*a], pl.ord[*b])).collect();
            // `Strict` used as an identifier inside a class/record body (legal: it is a directive only in
            // front of private/protected) is taken for the start of a visibility section
            let strict_ident_ord: Option<usize> = prog
                .toks
                .iter()
                .enumerate()
                .filter(|(i, t)| {
                    t.kind == crate::gen::gram::GK::SoftIdent
                        && t.text.eq_ignore_ascii_case("strict")
                        && prog.blocks.iter().any(|b| b.kind == BlockKind::TypeBody && b.opener < *i && b.closer.is_some_and(|c| c > *i))
                })
                .map(|(i, _)| pl.ord[i])
                .min();
            // a comment between `strict` and `private`/`protected` splits the two words over two lines
            let strict_comment_ord: Option<usize> = (1..lay.pieces.len())
                .filter(|&i| {
                    matches!(lay.pieces[i].kind, crate::gen::layout::PieceKind::LineComment | crate::gen::layout::PieceKind::BlockComment)
                        && lay.pieces[i - 1].text.eq_ignore_ascii_case("strict")
                        && matches!(lay.pieces[i - 1].kind, crate::gen::layout::PieceKind::Tok(t) if prog.toks[t].kind == crate::gen::gram::GK::Keyword)
                })
                .filter_map(|i| match lay.pieces[i - 1].kind {
                    crate::gen::layout::PieceKind::Tok(t) => Some(pl.ord[t]),
                    _ => None,
                })
                .min();
            // statements / members that directly follow a conditional directive (wrapped by the layout)
            let mut cond_wrapped: std::collections::HashSet<usize> = Default::default();
            for (i, p) in lay.pieces.iter().enumerate() {
                if let crate::gen::layout::PieceKind::Tok(t) = p.kind {
                    let mut j = i;
                    while j > 0 && matches!(lay.pieces[j - 1].kind, crate::gen::layout::PieceKind::LineComment | crate::gen::layout::PieceKind::BlockComment) {
                        j -= 1;
                    }
                    if j > 0 && lay.pieces[j - 1].kind == crate::gen::layout::PieceKind::Directive {
                        let d = lay.pieces[j - 1].text.trim_start_matches(['{', '(', '*']).trim_start_matches('$').to_ascii_lowercase();
                        if d.starts_with("if") {
                            cond_wrapped.insert(t);
                        }
                    }
                }
            }
            let mut findings = vec![];
            for b in &prog.blocks {
                check_block(prog, b, &pl, &cfg, &cond_wrapped, &mut findings, &mut out);
            }
            // depth 0 is column 0: what the generator starts at the outermost level of the file (unit /
            // program head, section keywords, declarations sections and routine headings of the file
            // level, the final `end.`) starts its line without any indentation
            for (ti, t) in prog.toks.iter().enumerate() {
                if t.line_start && t.depth == 0 {
                    let (l, f) = pl.lead(ti);
                    out.count("top_level_starts_checked");
                    if f && !l.is_empty() {
                        findings.push(Finding { class: "top-level-indented", detail: format!("token {:?} of the file's outermost level is indented by {:?} (…{}…)", t.text, l, excerpt(pl.out, pl.off[ti], 50).replace('\n', "⏎")), ord: pl.ord[ti], kind: BlockKind::UnitSection, in_anon: false });
                        break;
                    }
                }
            }
            let mut reported = 0;
            for f in findings {
                let in_header_anon_stmt = header_anon_ords.iter().any(|(a, b)| f.ord >= *a && f.ord <= *b);
                let class = if wf::in_ranges(&fb, f.ord) {
                    "wrap-fallback".to_string()
                } else if f.class == "anon-single-statement-body" {
                    f.class.to_string()
                } else if in_header_anon_stmt {
                    "anon-routine-in-control-header".to_string()
                } else if raise_anon_ords.iter().any(|(a, b)| f.ord >= *a && f.ord <= *b) {
                    "anon-routine-in-raise".to_string()
                } else if strict_ident_ord.is_some_and(|o| f.ord >= o) {
                    "strict-identifier-in-type-body".to_string()
                } else if strict_comment_ord.is_some_and(|o| f.ord >= o) && matches!(f.kind, BlockKind::Visibility | BlockKind::TypeBody | BlockKind::DeclSection) {
                    "comment-between-strict-and-visibility".to_string()
                } else if f.in_anon && wf::comment_after_conditional_directive(&input) {
                    // a comment after a conditional directive counts as part of the code line before the
                    // directive (C11 class of the same name): directly after the `begin` of an anonymous
                    // routine it changes where that `begin` is put, but not its statements
                    "comment-after-conditional-directive".to_string()
                } else if obs.reflow_cache_hit() && input.contains("'''") && matches!(f.kind, BlockKind::AnonBegin | BlockKind::CtrlBegin | BlockKind::PlainBegin | BlockKind::Try | BlockKind::Finally | BlockKind::Except | BlockKind::Repeat | BlockKind::CaseElse) {
                    // child lines (anonymous routine bodies) laid out by the second wrapping round from
                    // solutions memoised before a multi-line literal was re-indented
                    "reflow-child-cache".to_string()
                } else {
                    f.class.to_string()
                };
                out.count(&format!("finding.{class}.{:?}", f.kind));
                if reported < 3 {
                    out.violate("C05", &class, format!("[{}] {}", cfg.short(), f.detail), &input, Some(&cfg));
                    reported += 1;
                }
            }
            if !fb.is_empty() {
                out.count("calls_with_wrap_fallback");
            }
            let items: usize = prog.blocks.iter().map(|b| b.items.len()).sum();
            if prog.max_depth >= 2 && items >= 5 {
                let mut h = rng::hash_str(&cfg.short());
                for b in &prog.blocks {
                    h = rng::hash_combine(h, b.kind as u64 * 31 + b.items.len() as u64);
                }
                out.nontrivial.push(h);
            }
            for f in &prog.features {
                out.count(&format!("feature.{f}"));
            }
            if out.sample.is_none() && idx < 32 {
                out.sample = Some(json!({"config": cfg.short(), "blocks": prog.blocks.len(), "marked items": items, "input": short(&input, 300), "output": short(&output, 300)}));
            }
        }
        out
    }
}
