//! C14 — logical lines are well-formed and cover every token.

use super::common;
use super::wf;
use crate::exec;
use crate::prop::{short, CaseOut, Ctx, Prop, Tier};
use crate::rng::{self, Rng};
use pasfmt_core::prelude::*;
use serde_json::json;

pub struct C14;

fn has_conditional(tokens: &[Token]) -> bool {
    tokens.iter().any(|t| matches!(t.get_token_type(), TokenType::ConditionalDirective(_)))
}

pub fn check_lines(lines: &[LogicalLine], tokens: &[Token], well_formed: bool) -> Result<(usize, usize), (String, String)> {
    let n = tokens.len();
    let mut cover = vec![0u32; n];
    let mut children = 0;
    for (li, l) in lines.iter().enumerate() {
        let t = l.get_tokens();
        if t.is_empty() {
            return Err(("empty-line".into(), format!("logical line #{li} ({:?}) has no tokens", l.get_line_type())));
        }
        for w in t.windows(2) {
            if w[0] >= w[1] {
                return Err(("not-increasing".into(), format!("logical line #{li}: token indices not strictly increasing: {:?}", &t[..t.len().min(12)])));
            }
        }
        for &i in t {
            if i >= n {
                return Err(("out-of-range".into(), format!("logical line #{li} refers to token {i} of {n}")));
            }
            cover[i] += 1;
        }
        if l.get_parent().is_some() {
            children += 1;
        }
    }
    if let Some(i) = cover.iter().position(|&c| c == 0) {
        return Err(("token-uncovered".into(), format!("token #{i} {:?} ({:?}) belongs to no logical line", short(tokens[i].get_content(), 40), tokens[i].get_token_type())));
    }
    if !has_conditional(tokens) {
        if let Some(i) = cover.iter().position(|&c| c > 1) {
            return Err(("token-in-two-lines".into(), format!("token #{i} {:?} belongs to {} logical lines although the file has no conditional directive", short(tokens[i].get_content(), 40), cover[i])));
        }
    }
    if well_formed {
        for (li, l) in lines.iter().enumerate() {
            if let Some(p) = l.get_parent() {
                if p.line_index >= li {
                    return Err(("parent-not-earlier".into(), format!("line #{li} has parent line #{} which does not precede it", p.line_index)));
                }
                let pl = &lines[p.line_index];
                if !pl.get_tokens().contains(&p.global_token_index) {
                    return Err(("parent-token-missing".into(), format!("line #{li}: parent line #{} does not contain the parent token #{}", p.line_index, p.global_token_index)));
                }
            }
        }
        let eof_lines: Vec<usize> = lines.iter().enumerate().filter(|(_, l)| l.get_line_type() == LogicalLineType::Eof).map(|(i, _)| i).collect();
        if eof_lines.len() != 1 {
            return Err(("eof-line-count".into(), format!("{} end-of-file lines", eof_lines.len())));
        }
        let el = &lines[eof_lines[0]];
        if el.get_tokens().len() != 1 || tokens[el.get_tokens()[0]].get_token_type() != TokenType::Eof {
            return Err(("eof-line-content".into(), format!("end-of-file line holds tokens {:?}", el.get_tokens())));
        }
        // the end-of-file token must not be in any other line
        let eof_idx = n - 1;
        if cover[eof_idx] != 1 {
            return Err(("eof-line-content".into(), format!("end-of-file token belongs to {} lines", cover[eof_idx])));
        }
    }
    Ok((lines.len(), children))
}

/// directive / comment sub-alphabet, enumerated exhaustively (how directive-only conditional
/// blocks, trailing comments and code interleave is where tokens get lost)
const DIRECTIVE_ALPHABET: &[&str] = &["{$IFDEF A}", "{$ELSE}", "{$ENDIF}", "{$R+}", "// c\n", "{c}", "a", ";", "begin", "end"];
const EXH_BATCH: u64 = 500;

fn exh_total(max_len: u32) -> u64 {
    (1..=max_len).map(|l| (DIRECTIVE_ALPHABET.len() as u64).pow(l)).sum()
}

/// the i-th sequence in length-then-lexicographic order
fn exh_sequence(mut i: u64, max_len: u32) -> String {
    let n = DIRECTIVE_ALPHABET.len() as u64;
    let mut len = 1;
    while len <= max_len && i >= n.pow(len) {
        i -= n.pow(len);
        len += 1;
    }
    let mut s = String::new();
    for k in 0..len {
        let lex = DIRECTIVE_ALPHABET[(i % n) as usize];
        i /= n;
        if k > 0 && !s.ends_with('\n') {
            s.push(' ');
        }
        s.push_str(lex);
    }
    s
}

impl Prop for C14 {
    fn id(&self) -> &'static str {
        "C14"
    }
    fn cases(&self, ctx: &Ctx) -> u64 {
        ctx.tier.pick(25_000, 300_000) + exh_total(ctx.tier.pick(4, 6)).div_ceil(EXH_BATCH)
    }
    fn rule(&self) -> &'static str {
        "DelphiLogicalLineParser.parse(DelphiLexer.lex(x)) observed at the quiescent point after parsing; universal clauses (non-empty lines, strictly increasing in-range indices, every token covered, exactly once without conditional directives) on all generators, and on every sequence up to length 4 (quick) / 6 (thorough) over a 10-lexeme directive/comment alphabet ({$IFDEF A} {$ELSE} {$ENDIF} {$R+} // c {c} a ; begin end); parent and end-of-file clauses on grammar programs (all decorated layouts incl. directives wrapping statements) and seeds; hook: parser passes <= conditional branches + 1. Non-trivial: >= 3 lines and >= 1 child line or directive; distinct by hash of the token-kind sequence."
    }
    fn floor(&self, tier: Tier) -> u64 {
        tier.pick(5_000, 100_000)
    }
    fn run_case(&self, ctx: &Ctx, idx: u64) -> CaseOut {
        let mut out = CaseOut::default();
        let mut rng = Rng::derive(ctx.seed, "C14", idx);
        let max_len = ctx.tier.pick(4, 6);
        let exh_cases = exh_total(max_len).div_ceil(EXH_BATCH);
        if idx < exh_cases {
            let total = exh_total(max_len);
            let start = idx * EXH_BATCH;
            let end = (start + EXH_BATCH).min(total);
            for i in start..end {
                let input = exh_sequence(i, max_len);
                out.evals += 1;
                out.count("exhaustive.directive-alphabet");
                if let Ok(p) = exec::lex_parse(&input, exec::step_budget(input.len())) {
                    if let Err((class, detail)) = check_lines(&p.lines, &p.tokens, false) {
                        out.violate("C14", &class, format!("[exhaustive directive/comment sequence] {detail}"), &input, None);
                    }
                    if p.tokens.len() >= 4 {
                        out.nontrivial.push(rng::hash_str(&input));
                    }
                }
            }
            if end == total {
                out.count("exhaustive_complete");
            }
            return out;
        }
        for k in 0..30 {
            let mut odd_after: Vec<String> = vec![];
            let (input, kind, wf) = if rng.bool() {
                let w = if rng.chance(1, 4) {
                    // comments on their own line between arbitrary tokens
                    let deco = crate::gen::layout::DecoOpts { odd_comment: *rng.pick(&[5u32, 20, 60]), ..crate::gen::layout::DecoOpts::light() };
                    out.count("gen.gram-odd-comments");
                    common::gram_case(&mut rng, 25, &deco)
                } else {
                    common::well_formed(ctx, &mut rng, 30)
                };
                let is_gram = w.prog.is_some();
                odd_after = w.layout.as_ref().map(|l| l.odd_comment_after.clone()).unwrap_or_default();
                (w.text, if is_gram { "gram" } else { "seed" }, true)
            } else {
                let (i, k) = common::any_input(ctx, &mut rng);
                (i, k, false)
            };
            out.count(&format!("gen.{kind}"));
            out.evals += 1;
            match exec::lex_parse(&input, exec::step_budget(input.len())) {
                Ok(p) => {
                    match check_lines(&p.lines, &p.tokens, wf) {
                        Ok((nl, ch)) => {
                            let dir = has_conditional(&p.tokens);
                            if dir {
                                out.count("inputs_with_conditional_directives");
                                let branches = p.tokens.iter().filter(|t| matches!(t.get_token_type(), TokenType::ConditionalDirective(k) if !matches!(k, ConditionalDirectiveKind::Endif | ConditionalDirectiveKind::Ifend))).count();
                                if p.passes > branches + 1 {
                                    out.violate("C14", "too-many-passes", format!("{} parser passes for {branches} conditional branches", p.passes), &input, None);
                                }
                            }
                            if nl >= 3 && (ch > 0 || dir) {
                                let mut h = 0u64;
                                for t in p.tokens.iter().take(200) {
                                    h = rng::hash_combine(h, rng::hash_str(&format!("{:?}", t.get_token_type())));
                                }
                                out.nontrivial.push(h);
                            }
                            if ch > 0 {
                                out.add("child_lines_seen", ch as u64);
                            }
                            if out.sample.is_none() && idx < 32 {
                                out.sample = Some(json!({"generator": kind, "input": short(&input, 240), "logical lines": nl, "child lines": ch, "parser passes": p.passes}));
                            }
                        }
                        Err((class, detail)) => {
                            // known finding: an own-line comment directly after the head keyword of a
                            // structured type or after `=` derails the type declaration parser
                            let after_type_head = odd_after.iter().any(|t| wf::is_type_head_word(t));
                            let class = if after_type_head && (class.starts_with("eof-line") || class.starts_with("parent")) { "comment-after-type-head".to_string() } else { class };
                            out.violate("C14", &class, format!("[{kind}] {detail}"), &input, None)
                        }
                    }
                }
                Err(p) => {
                    out.count("panicked_calls");
                    let _ = p;
                }
            }
        }
        out
    }
}
