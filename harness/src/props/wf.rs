//! Helpers shared by the monitors that work on well-formed programs.

use crate::exec::{self, Obs};
use crate::oracle;
use crate::refscan::{self, NbIndex, RTok, RK};

/// non-blank ordinal ranges (inclusive start, exclusive end) of the tokens the wrapper left as
/// spaced; token indices of hook events are mapped through pasfmt's own scan of the input
pub fn fallback_nb_ranges(input: &str, obs: &Obs) -> Vec<(usize, usize)> {
    if !obs.has_fallback() {
        return vec![];
    }
    let Ok(toks) = exec::lex(input) else { return vec![(0, usize::MAX)] };
    use pasfmt_core::prelude::TokenData;
    let mut starts = Vec::with_capacity(toks.len());
    let mut pos = 0;
    for t in &toks {
        let ws = t.get_leading_whitespace().len();
        let len = t.get_content().len();
        starts.push((pos + ws, pos + ws + len));
        pos += ws + len;
    }
    let nb = NbIndex::new(input);
    obs.fallbacks()
        .map(|(first, last, _)| {
            let s = starts.get(first).map(|x| x.0).unwrap_or(0);
            let e = starts.get(last).map(|x| x.1).unwrap_or(input.len());
            (nb.ordinal_at(s), nb.ordinal_at(e))
        })
        .collect()
}

pub fn in_ranges(ranges: &[(usize, usize)], ord: usize) -> bool {
    ranges.iter().any(|(a, b)| ord >= *a && ord < *b)
}

/// split a multi-line literal into (quotes, interior lines, closing-line indentation); None if
/// the closing line has text before the quotes
pub fn mlstr_parts(lit: &str) -> Option<(usize, Vec<&str>, &str)> {
    let q = lit.bytes().take_while(|b| *b == b'\'').count();
    if q < 3 || lit.len() < 2 * q {
        return None;
    }
    let inner = &lit[q..lit.len() - q];
    let lines = oracle::split_breaks(inner);
    // lines[0] is the rest of the opening line (empty), last is the closing line's indentation
    if lines.len() < 2 || !lines[0].is_empty() {
        return None;
    }
    let base = lines[lines.len() - 1];
    if !base.chars().all(refscan::is_blank_char) {
        return None;
    }
    Some((q, lines[1..lines.len() - 1].to_vec(), base))
}

/// value of a conforming literal: interior lines with the closing indentation removed
pub fn mlstr_value(lit: &str) -> Option<Vec<String>> {
    let (_, lines, base) = mlstr_parts(lit)?;
    let mut v = vec![];
    for l in lines {
        if let Some(r) = l.strip_prefix(base) {
            v.push(r.to_string());
        } else if base.starts_with(l) {
            v.push(String::new());
        } else {
            return None;
        }
    }
    Some(v)
}

fn line_comment_ok(inp: &str, out: &str) -> bool {
    let t = inp.trim_end_matches(|c: char| c.is_ascii_whitespace());
    if out == inp && t.len() == inp.len() {
        // nothing to trim; insertion rule checked below
    }
    let prefix_len = if t.starts_with("///") { 3 } else { 2 };
    if t.len() < prefix_len {
        return out == t;
    }
    let body = &t[prefix_len..];
    let inserted = format!("{} {}", &t[..prefix_len], body);
    match body.chars().next() {
        None => out == t,
        Some(c) if c.is_ascii_whitespace() => out == t,
        Some(c) => {
            let repeated = body.chars().all(|x| x == c);
            if repeated && !c.is_alphanumeric() {
                out == t || out == inserted
            } else {
                out == inserted
            }
        }
    }
}

fn directive_ok(inp: &str, out: &str) -> bool {
    if inp == out {
        return true;
    }
    if inp.len() != out.len() {
        return false;
    }
    let head = if inp.starts_with("{$") { 2 } else { 3 };
    let name_len = inp[head.min(inp.len())..].bytes().take_while(|b| b.is_ascii_alphanumeric() || matches!(b, b'_' | b'+' | b'-' | b',')).count();
    let (ih, it) = inp.split_at((head + name_len).min(inp.len()));
    let (oh, ot) = out.split_at((head + name_len).min(out.len()));
    // the name may only change towards upper case; the rest is untouched
    it == ot && ih.eq_ignore_ascii_case(oh) && ih.bytes().zip(oh.bytes()).all(|(a, b)| a == b || b == a.to_ascii_uppercase())
}

/// relation N of C02 between an input token and the output token at the same position
pub fn token_related(kind: RK, inp: &str, out: &str, fmt_mlstr: bool) -> bool {
    match kind {
        RK::Word => inp == out || (inp.eq_ignore_ascii_case(out) && refscan::is_keyword_capable(inp) && out == inp.to_ascii_lowercase()),
        RK::Directive => directive_ok(inp, out),
        RK::LineComment => line_comment_ok(inp, out),
        RK::MlStr => {
            if inp == out {
                return true;
            }
            if !fmt_mlstr {
                return false;
            }
            match (mlstr_value(inp), mlstr_value(out)) {
                (Some(a), Some(b)) => a == b,
                _ => false,
            }
        }
        _ => inp == out,
    }
}

/// compare two reference scans under N; Err(description) on the first difference
pub fn compare_scans(input: &str, a: &[RTok], output: &str, b: &[RTok], fmt_mlstr: bool) -> Result<(), String> {
    let n = a.len().min(b.len());
    for k in 0..n {
        let (x, y) = (&a[k], &b[k]);
        let (tx, ty) = (x.text(input), y.text(output));
        if x.kind != y.kind || !token_related(x.kind, tx, ty, fmt_mlstr) {
            return Err(format!(
                "token #{k}: input {:?} {:?} vs output {:?} {:?} (output context …{:?}…)",
                x.kind,
                crate::prop::short(tx, 60),
                y.kind,
                crate::prop::short(ty, 60),
                crate::prop::excerpt(output, y.start, 40)
            ));
        }
    }
    if a.len() != b.len() {
        let extra = if a.len() > b.len() { a[n].text(input) } else { b[n].text(output) };
        return Err(format!("input scans to {} tokens, output to {}; first unmatched token {:?}", a.len(), b.len(), crate::prop::short(extra, 60)));
    }
    Ok(())
}

/// Non-blank ordinal ranges of tokens on logical lines that have an ancestor line lying entirely
/// inside a verbatim region (known finding: such lines are not laid out at all). Uses pasfmt's
/// own parse of the input, only to compute the signature of that finding.
pub fn orphan_nb_ranges(input: &str) -> Vec<(usize, usize)> {
    use pasfmt_core::prelude::*;
    let Ok(p) = exec::lex_parse(input, exec::SOFT_STEP_LIMIT) else { return vec![] };
    let n = p.tokens.len();
    let mut spans = Vec::with_capacity(n);
    let mut pos = 0usize;
    for t in &p.tokens {
        let ws = t.get_leading_whitespace().len();
        let l = t.get_content().len();
        spans.push((pos + ws, pos + ws + l));
        pos += ws + l;
    }
    let mut ignored = vec![false; n];
    let mut off = false;
    for (i, t) in p.tokens.iter().enumerate() {
        let mut this = off;
        if let TokenType::Comment(_) = t.get_token_type() {
            if let Some(on) = oracle::toggle_of(t.get_content()) {
                this = true;
                off = !on;
            }
        }
        ignored[i] = this;
    }
    if !ignored.iter().any(|x| *x) {
        return vec![];
    }
    let voided: Vec<bool> = p.lines.iter().map(|l| !l.get_tokens().is_empty() && l.get_tokens().iter().all(|&t| ignored.get(t).copied().unwrap_or(false))).collect();
    let nb = NbIndex::new(input);
    let mut out = vec![];
    for (li, l) in p.lines.iter().enumerate() {
        let mut cur = l.get_parent();
        let mut depth = 0;
        let mut orphan = false;
        while let Some(par) = cur {
            if depth > p.lines.len() {
                break;
            }
            match p.lines.get(par.line_index) {
                Some(pl) => {
                    if voided[par.line_index] {
                        orphan = true;
                        break;
                    }
                    cur = pl.get_parent();
                }
                None => break,
            }
            depth += 1;
        }
        let _ = li;
        if orphan {
            for &t in l.get_tokens() {
                if let Some(&(s, e)) = spans.get(t) {
                    out.push((nb.ordinal_at(s), nb.ordinal_at(e)));
                }
            }
        }
    }
    out
}

/// signature of a known finding: a multi-line literal is the first token of a logical line
/// (possible in invalid code only); its length is then measured over the whole token
pub fn mlstr_starts_logical_line(input: &str) -> bool {
    use pasfmt_core::prelude::*;
    let Ok(p) = exec::lex_parse(input, exec::SOFT_STEP_LIMIT) else { return false };
    p.lines.iter().any(|l| l.get_tokens().first().and_then(|&t| p.tokens.get(t)).is_some_and(|t| t.get_token_type() == TokenType::TextLiteral(TextLiteralKind::MultiLine)))
}

/// signature of a known finding: a token that the lexer ends at a line break (line comment,
/// unterminated literal) is followed by a gap whose only line-break characters are lone CRs.
/// The lexer honours the CR, the whitespace model (FormattingData) only counts LF.
pub fn lone_cr_after_line_bound_token(input: &str) -> bool {
    let toks = refscan::scan(input);
    for (i, t) in toks.iter().enumerate() {
        if matches!(t.kind, RK::LineComment | RK::UntermStr) {
            let end = toks.get(i + 1).map(|n| n.start).unwrap_or(input.len());
            let gap = &input[t.end..end];
            if gap.contains('\r') && !gap.contains('\n') {
                return true;
            }
        }
        // a gap made only of lone CRs, between any two tokens: neither a space nor a counted line
        // break, so the two tokens are written without anything between them (`'s'` CR `'''` -> `'s''''`)
        if let Some(n) = toks.get(i + 1) {
            let gap = &input[t.end..n.start];
            if !gap.is_empty() && gap.bytes().all(|b| b == b'\r') {
                return true;
            }
        }
    }
    false
}

/// non-blank ordinal ranges of the logical lines of the given types (by pasfmt's own parse of
/// the input; used only to compute signatures of known findings)
pub fn line_type_nb_ranges(input: &str, types: &[pasfmt_core::prelude::LogicalLineType]) -> Vec<(usize, usize)> {
    use pasfmt_core::prelude::*;
    let Ok(p) = exec::lex_parse(input, exec::SOFT_STEP_LIMIT) else { return vec![] };
    let mut spans = Vec::with_capacity(p.tokens.len());
    let mut pos = 0usize;
    for t in &p.tokens {
        let ws = t.get_leading_whitespace().len();
        let l = t.get_content().len();
        spans.push((pos + ws, pos + ws + l));
        pos += ws + l;
    }
    let nb = NbIndex::new(input);
    let mut out = vec![];
    for l in &p.lines {
        // routine-like: RoutineHeader lines, and any line holding a procedural type / anonymous
        // routine header (a `function`/`procedure` keyword followed by a parameter list)
        let routine_like = types.contains(&LogicalLineType::RoutineHeader)
            && l.get_tokens().iter().any(|&t| matches!(p.tokens.get(t).map(|t| t.get_token_type()), Some(TokenType::Keyword(KeywordKind::Function | KeywordKind::Procedure))));
        if types.contains(&l.get_line_type()) || routine_like {
            if let (Some(&a), Some(&b)) = (l.get_tokens().first(), l.get_tokens().last()) {
                if let (Some(sa), Some(sb)) = (spans.get(a), spans.get(b)) {
                    // include a trailing comment on the same line: extend to the next token start
                    let end = spans.get(b + 1).map(|x| x.0).unwrap_or(sb.1);
                    out.push((nb.ordinal_at(sa.0), nb.ordinal_at(end.max(sb.1))));
                }
            }
        }
    }
    out
}

/// non-blank ordinals at which a physical line starts
pub fn line_start_ordinals(text: &str) -> std::collections::BTreeSet<usize> {
    let mut set = std::collections::BTreeSet::new();
    let mut ord = 0usize;
    let mut at_line_start = true;
    for c in text.chars() {
        if c == '\n' || c == '\r' {
            at_line_start = true;
        } else if !refscan::is_blank_char(c) {
            if at_line_start {
                set.insert(ord);
                at_line_start = false;
            }
            ord += 1;
        }
    }
    set
}

/// signature of a known finding: `:` + line comment + `(` (a variant-record arm whose field list
/// is pushed to the next line by a comment after the colon)
pub fn colon_comment_paren(input: &str) -> bool {
    let t = refscan::scan(input);
    t.windows(3).any(|w| w[0].text(input) == ":" && w[1].kind == RK::LineComment && w[2].text(input) == "(")
}

/// words after which an own-line comment derails the type declaration parser (known finding
/// comment-after-type-head); `t` is lower case, "helper for" stands for the `for` of a helper type
pub fn is_type_head_word(t: &str) -> bool {
    matches!(t, "class" | "record" | "interface" | "object" | "=" | "helper" | "helper for" | "sealed" | "abstract" | "packed" | "to" | "of" | "array" | "set" | "reference" | "function" | "procedure")
}

/// signature of a known finding: a comment on the same line directly after a *conditional*
/// directive (`{$ENDIF} // why`); the wrapper measures it as if it continued the code line before
/// the directive
pub fn comment_after_conditional_directive(input: &str) -> bool {
    let t = refscan::scan(input);
    t.windows(2).any(|w| {
        w[0].kind == RK::Directive
            && matches!(w[1].kind, RK::LineComment | RK::BlockComment)
            && !input[w[0].end..w[1].start].contains(['\n', '\r'])
            && {
                let d = w[0].text(input).trim_start_matches(['{', '(', '*']).trim_start_matches('$').to_ascii_lowercase();
                ["ifdef", "ifndef", "ifopt", "if ", "if(", "else", "elseif", "endif", "ifend"].iter().any(|p| d.starts_with(p))
            }
    })
}
