//! C12 — multi-line string literals keep their value.

use super::common;
use super::wf;
use crate::cfg::Cfg;
use crate::gen::mls::{self, Mls};
use crate::oracle;
use crate::prop::{short, CaseOut, Ctx, Prop, Tier};
use crate::refscan::NbIndex;
use crate::rng::{self, Rng};
use serde_json::json;

pub struct C12;

/// find the literal that starts at byte `off` of `out`: quote run, then up to the same run again
fn literal_at(out: &str, off: usize, quotes: usize) -> Option<&str> {
    let q = "'".repeat(quotes);
    if !out[off..].starts_with(&q) {
        return None;
    }
    let body = off + quotes;
    let end = out[body..].find(&q)? + body + quotes;
    Some(&out[off..end])
}

fn check_literal(lit: &Mls, out_lit: &str, out: &str, out_off: usize, cfg: &Cfg) -> Result<bool, (String, String)> {
    if !cfg.format_multiline_strings || !lit.conforming {
        if out_lit != lit.text {
            return Err(("verbatim-literal-changed".into(), format!("literal must be reproduced byte for byte ({}) but changed: {:?} -> {:?}", if lit.conforming { "format_multiline_strings=false" } else { "it violates the indentation rule" }, short(&lit.text, 120), short(out_lit, 120))));
        }
        return Ok(false);
    }
    // conforming + formatting on
    let Some((q, lines, base)) = wf::mlstr_parts(out_lit) else {
        return Err(("literal-shape".into(), format!("output literal has no clean closing line: {:?}", short(out_lit, 160))));
    };
    if q != lit.quotes {
        return Err(("literal-shape".into(), "quote run changed".into()));
    }
    // value
    let mut value = vec![];
    for l in &lines {
        if let Some(r) = l.strip_prefix(base) {
            value.push(r.to_string());
        } else if base.starts_with(*l) {
            value.push(String::new());
        } else {
            return Err(("value-changed".into(), format!("output interior line {:?} does not start with the closing indentation {:?}", l, base)));
        }
    }
    if value != lit.value_lines {
        return Err(("value-changed".into(), format!("value lines changed: {:?} -> {:?}", lit.value_lines, value)));
    }
    // indentation like the opening quotes' line
    let (lead, _first) = oracle::line_lead(out, out_off);
    if base != lead {
        return Err(("literal-indentation".into(), format!("closing quotes indented {:?} but the opening quotes' line is indented {:?}", base, lead)));
    }
    for l in &lines {
        if !l.is_empty() && !l.starts_with(lead) {
            return Err(("literal-indentation".into(), format!("interior line {:?} is not indented like the opening line {:?}", l, lead)));
        }
    }
    // terminators
    let nl = cfg.nl();
    let inner = &out_lit[q..out_lit.len() - q];
    let by = inner.as_bytes();
    for (i, &c) in by.iter().enumerate() {
        let bad = if cfg.crlf { (c == b'\n' && (i == 0 || by[i - 1] != b'\r')) || (c == b'\r' && by.get(i + 1) != Some(&b'\n')) } else { c == b'\r' };
        if bad {
            return Err(("literal-terminator".into(), format!("interior line break is not the configured {:?}: {:?}", nl, short(out_lit, 120))));
        }
    }
    Ok(out_lit != lit.text)
}

impl Prop for C12 {
    fn id(&self) -> &'static str {
        "C12"
    }
    fn cases(&self, ctx: &Ctx) -> u64 {
        ctx.tier.pick(30_000, 400_000)
    }
    fn rule(&self) -> &'static str {
        "literal product (3/5/7 quotes; interior endings LF/CR/CRLF/mixed; indentation of spaces, tabs, mixed, U+3000, VT; blank lines, lines that are a strict prefix of the closing indentation, lines of exactly the closing indentation, under-indented lines, over-indented lines, trailing blanks, embedded shorter quote runs, text before the closing quotes) placed in 29 carrier programs (constant, assignment, argument, after an operator, followed by a method call, nested control flow, anonymous routines also nested, case arm, several per statement, statements split by conditional directives, far-indented receiver literals) x sampled configurations; the literal's value is known by construction and the literal is located in the output by non-blank ordinal; oracle: conforming literal => same value lines, closing quotes and interior lines indented exactly like the opening quotes' line, configured terminators; otherwise byte-for-byte. Non-trivial: literal has >= 2 interior lines and its text changed; distinct by hash of (literal, carrier, configuration)."
    }
    fn floor(&self, tier: Tier) -> u64 {
        tier.pick(3_000, 60_000)
    }
    fn run_case(&self, ctx: &Ctx, idx: u64) -> CaseOut {
        let mut out = CaseOut::default();
        let mut rng = Rng::derive(ctx.seed, "C12", idx);
        for k in 0..20 {
            let ci = rng.below(mls::CARRIERS.len());
            let carrier = mls::CARRIERS[ci];
            let n = mls::placeholders(carrier);
            let lits: Vec<Mls> = (0..n).map(|_| mls::gen(&mut rng)).collect();
            let (mut input, offs) = mls::place(carrier, &lits);
            // carriers use LF; sometimes render the code part with CRLF (literal interiors keep their own endings)
            let _ = &mut input;
            let cfg = if rng.chance(1, 3) { Cfg::sample(&mut rng) } else { Cfg::sample_sane(&mut rng) };
            common::cfg_hist(&mut out, &cfg);
            out.count(&format!("carrier.{ci}"));
            let Some((output, obs)) = common::run(&mut out, &cfg, &input) else { continue };
            let nb_in = NbIndex::new(&input);
            let nb_out = NbIndex::new(&output);
            if nb_in.len() != nb_out.len() {
                // non-blank characters were lost or added somewhere (C01's business); a literal that must be
                // kept byte for byte can still be judged: its text has to occur in the output
                out.count("unplaceable_outputs");
                if !obs.has_fallback() {
                    for lit in lits.iter().filter(|l| !l.conforming) {
                        if !output.contains(&lit.text) {
                            out.violate("C12", "verbatim-literal-changed", format!("[{}] carrier {ci}, literal shape [{}]: the literal must be reproduced byte for byte (it violates the indentation rule) but its text {:?} does not occur in the output", cfg.short(), lit.shape, short(&lit.text, 120)), &input, Some(&cfg));
                            break;
                        }
                    }
                    // a conforming literal keeps its value wherever it ended up: some literal of the output
                    // must have exactly its value lines
                    if cfg.format_multiline_strings {
                        let out_values: Vec<Vec<String>> = crate::refscan::scan(&output).iter().filter(|t| t.kind == crate::refscan::RK::MlStr).filter_map(|t| wf::mlstr_value(t.text(&output))).collect();
                        for lit in lits.iter().filter(|l| l.conforming) {
                            if !out_values.iter().any(|v| *v == lit.value_lines) {
                                out.violate("C12", "literal-value-changed", format!("[{}] carrier {ci}, literal shape [{}]: no literal of the output has the value lines {:?}", cfg.short(), lit.shape, lit.value_lines), &input, Some(&cfg));
                                break;
                            }
                        }
                    }
                }
                continue;
            }
            for (li, lit) in lits.iter().enumerate() {
                let ord = nb_in.ordinal_at(offs[li]);
                let Some(oo) = nb_out.offset_of(ord) else { continue };
                out.count(if lit.conforming { "literals.conforming" } else { "literals.nonconforming" });
                let Some(out_lit) = literal_at(&output, oo, lit.quotes) else {
                    out.violate("C12", "literal-lost", format!("[{}] no literal found at its place in the output", cfg.short()), &input, Some(&cfg));
                    continue;
                };
                match check_literal(lit, out_lit, &output, oo, &cfg) {
                    Ok(changed) => {
                        if changed {
                            out.count("literals.reindented");
                            if lit.value_lines.len() >= 2 {
                                out.nontrivial.push(rng::hash_combine(rng::hash_combine(rng::hash_str(&lit.text), ci as u64), rng::hash_str(&cfg.short())));
                            }
                        }
                    }
                    Err((class, detail)) => {
                        let class = if obs.has_fallback() {
                            "wrap-fallback".to_string()
                        } else {
                            class
                        };
                        out.violate("C12", &class, format!("[{}] carrier {ci}, literal shape [{}]: {detail}", cfg.short(), lit.shape), &input, Some(&cfg));
                    }
                }
            }
            if out.sample.is_none() && idx < 32 {
                out.sample = Some(json!({"carrier": carrier, "literal": lits.first().map(|l| l.text.clone()), "shape": lits.first().map(|l| l.shape.clone()), "config": cfg.short(), "output": short(&output, 300)}));
            }
        }
        out
    }
}
