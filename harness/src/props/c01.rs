//! C01 — every non-blank character preserved, in order.

use super::common;
use crate::cfg::Cfg;
use crate::oracle;
use crate::prop::{short, CaseOut, Ctx, Prop};
use crate::rng::{self, Rng};
use serde_json::json;

pub struct C01;

const BATCH: u64 = 40;

impl Prop for C01 {
    fn id(&self) -> &'static str {
        "C01"
    }
    fn cases(&self, ctx: &Ctx) -> u64 {
        ctx.tier.pick(10_000, 150_000)
    }
    fn rule(&self) -> &'static str {
        "inputs from all generators (seeds, grammar programs with decorations, mutated/spliced/truncated programs, token soup, byte soup), each under a randomly sampled full configuration; oracle: blank-stripped character sequences equal ignoring ASCII case, and every case difference lies (by the reference scanner on the input) inside a keyword-capable word or a directive name. Non-trivial: input has >= 2 reference tokens and output != input; distinct by hash of (input, configuration)."
    }
    fn assumptions(&self) -> Vec<String> {
        vec!["reference scanner (harness/src/refscan.rs) delimits words and directive names on the input".into()]
    }
    fn run_case(&self, ctx: &Ctx, idx: u64) -> CaseOut {
        let mut out = CaseOut::default();
        let mut rng = Rng::derive(ctx.seed, "C01", idx);
        for k in 0..BATCH {
            let (input, kind) = common::any_input(ctx, &mut rng);
            let cfg = Cfg::sample(&mut rng);
            out.count(&format!("gen.{kind}"));
            common::cfg_hist(&mut out, &cfg);
            let Some((output, obs)) = common::run(&mut out, &cfg, &input) else { continue };
            match oracle::check_preservation(&input, &output) {
                Ok(case_changes) => {
                    if case_changes > 0 {
                        out.count("calls_with_case_change");
                    }
                }
                Err(e) => {
                    out.violate("C01", "content-changed", e, &input, Some(&cfg));
                }
            }
            if obs.has_fallback() {
                out.count("calls_with_wrap_fallback");
            }
            if output != input {
                let ntok = crate::refscan::scan(&input).len();
                if ntok >= 2 {
                    out.nontrivial.push(rng::hash_combine(rng::hash_str(&input), rng::hash_str(&cfg.short())));
                    if input.contains("//") && output.contains("// ") {
                        out.count("calls_with_line_comment");
                    }
                }
            }
            if k == 0 && idx < 3 {
                out.sample = Some(json!({"generator": kind, "config": cfg.short(), "input": short(&input, 300), "output": short(&output, 300)}));
            }
        }
        out
    }
}
