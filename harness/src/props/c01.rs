//! C01 — every non-blank character preserved, in order.

use super::common;
use crate::cfg::Cfg;
use crate::oracle;
use crate::prop::{short, CaseOut, Ctx, Prop};
use crate::rng::{self, Rng};
use serde_json::json;

pub struct C01;

const BATCH: u64 = 40;

impl Prop for C01 {
    fn id(&self) -> &'static str {
        "C01"
    }
    fn cases(&self, ctx: &Ctx) -> u64 {
        ctx.tier.pick(10_000, 150_000)
    }
    fn rule(&self) -> &'static str {
        "inputs from all generators (seeds, grammar programs with decorations, mutated/spliced/truncated programs, token soup, byte soup), each under a randomly sampled full configuration; oracle: blank-stripped character sequences equal ignoring ASCII case, and every case difference lies (by the reference scanner on the input) inside a keyword-capable word or a directive name. One case in twenty runs the claim through the real binary (stdin -> stdout and files mode; UTF-8 with a byte order mark, with U+FEFF as ordinary first characters). Non-trivial: input has >= 2 reference tokens and output != input; distinct by hash of (input, configuration)."
    }
    fn assumptions(&self) -> Vec<String> {
        vec!["reference scanner (harness/src/refscan.rs) delimits words and directive names on the input".into()]
    }
    fn needs_cli(&self) -> bool {
        true
    }
    fn run_case(&self, ctx: &Ctx, idx: u64) -> CaseOut {
        let mut out = CaseOut::default();
        let mut rng = Rng::derive(ctx.seed, "C01", idx);
        if idx % 20 == 19 && ctx.cli_bin.exists() {
            // the same claim on the text as the real binary reads and writes it (stdin -> stdout and
            // files mode, UTF-8 with and without byte order mark, U+FEFF as ordinary first character)
            let scratch = crate::cli::Scratch::new(&ctx.work_dir, "c01");
            for _ in 0..6 {
                let (text, kind) = common::any_input(ctx, &mut rng);
                let prefix = *rng.pick(&["", "", "\u{feff}", "\u{feff}\u{feff}", "\u{feff} \u{feff}"]);
                let input = format!("{prefix}{text}");
                let cfg = Cfg::sample_sane(&mut rng);
                let via_file = rng.bool();
                out.evals += 1;
                out.count(if via_file { "cli.files_mode" } else { "cli.stdin_mode" });
                if !prefix.is_empty() {
                    out.count("cli.inputs_starting_with_u_feff");
                }
                let output_bytes = if via_file {
                    let f = scratch.path.join(format!("f{}.pas", rng.below(100_000)));
                    if std::fs::write(&f, input.as_bytes()).is_err() {
                        continue;
                    }
                    let mut a = cfg.to_cli_args();
                    a.push(f.file_name().unwrap().to_string_lossy().to_string());
                    let r = crate::cli::run(crate::cli::Invocation { bin: &ctx.cli_bin, args: a, cwd: &scratch.path, stdin: None, env: vec![], as_nobody: false });
                    if !r.ok() {
                        out.count("cli.run_failed");
                        continue;
                    }
                    std::fs::read(&f).unwrap_or_default()
                } else {
                    let r = crate::cli::run(crate::cli::Invocation { bin: &ctx.cli_bin, args: cfg.to_cli_args(), cwd: &scratch.path, stdin: Some(input.as_bytes().to_vec()), env: vec![], as_nobody: false });
                    if !r.ok() {
                        out.count("cli.run_failed");
                        continue;
                    }
                    r.stdout
                };
                let Ok(output) = String::from_utf8(output_bytes) else {
                    out.violate("C01", "cli-output-not-utf8", format!("[{}] {kind}: the binary produced bytes that are not UTF-8 for a UTF-8 input", cfg.short()), &input, Some(&cfg));
                    continue;
                };
                // one leading U+FEFF is the byte order mark: it is kept, and the text after it is what is formatted
                let how = if via_file { "files mode" } else { "stdin -> stdout" };
                let (ti, to) = (input.strip_prefix('\u{feff}'), output.strip_prefix('\u{feff}'));
                let (ti, to) = if ti.is_some() { (ti, to) } else { (None, None) };
                if ti.is_some() && to.is_none() {
                    out.violate("C01", "content-changed", format!("through the binary ({how}): the input starts with a byte order mark, the output does not"), &input, Some(&cfg));
                } else if let Err(e) = oracle::check_preservation(ti.unwrap_or(&input), to.unwrap_or(&output)) {
                    out.violate("C01", "content-changed", format!("through the binary ({how}): {e}"), &input, Some(&cfg));
                }
                if output != input {
                    out.nontrivial.push(rng::hash_combine(rng::hash_str(&input), rng::hash_str(&cfg.short())));
                }
            }
            return out;
        }
        for k in 0..BATCH {
            let (input, kind) = common::any_input(ctx, &mut rng);
            let cfg = Cfg::sample(&mut rng);
            out.count(&format!("gen.{kind}"));
            common::cfg_hist(&mut out, &cfg);
            let Some((output, obs)) = common::run(&mut out, &cfg, &input) else { continue };
            match oracle::check_preservation(&input, &output) {
                Ok(case_changes) => {
                    if case_changes > 0 {
                        out.count("calls_with_case_change");
                    }
                }
                Err(e) => {
                    out.violate("C01", "content-changed", e, &input, Some(&cfg));
                }
            }
            if obs.has_fallback() {
                out.count("calls_with_wrap_fallback");
            }
            if output != input {
                let ntok = crate::refscan::scan(&input).len();
                if ntok >= 2 {
                    out.nontrivial.push(rng::hash_combine(rng::hash_str(&input), rng::hash_str(&cfg.short())));
                    if input.contains("//") && output.contains("// ") {
                        out.count("calls_with_line_comment");
                    }
                }
            }
            if k == 0 && idx < 3 {
                out.sample = Some(json!({"generator": kind, "config": cfg.short(), "input": short(&input, 300), "output": short(&output, 300)}));
            }
        }
        out
    }
}
