//! Workload selection shared by the monitors.

use crate::cfg::Cfg;
use crate::exec::{self, Obs};
use crate::gen::gram::{self, GramOpts, Program};
use crate::gen::layout::{DecoOpts, Layout};
use crate::gen::soup;
use crate::prop::{CaseOut, Ctx};
use crate::rng::Rng;
use crate::seeds::SeedKind;

pub struct WellFormed {
    pub text: String,
    pub name: String,
    pub prog: Option<Program>,
    pub layout: Option<Layout>,
    /// width the repository's own test uses for this seed
    pub seed_width: Option<u32>,
}

pub fn gram_opts(rng: &mut Rng, max_size: usize) -> GramOpts {
    GramOpts {
        size: rng.range(3, max_size),
        long_expr_pct: *rng.pick(&[5, 15, 15, 30]),
        max_expr_depth: *rng.pick(&[2, 3, 3, 4]),
        anon_in_headers: rng.chance(1, 5),
        anon_in_raise: rng.chance(1, 5),
        extended: rng.chance(1, 2),
        ..Default::default()
    }
}

pub fn gram_case(rng: &mut Rng, max_size: usize, deco: &DecoOpts) -> WellFormed {
    let opts = gram_opts(rng, max_size);
    let prog = gram::generate(rng, opts);
    let crlf = rng.chance(1, 4);
    let ml_indent = *rng.pick(&["", "  ", "    ", "\t"]);
    let layout = Layout::build(&prog, rng, deco, crlf, ml_indent);
    WellFormed { text: layout.render(), name: "gram".into(), prog: Some(prog), layout: Some(layout), seed_width: None }
}

/// a valid routine whose statements are nested 12 to 40 levels deep (begin..end, if, while, for,
/// try..finally, repeat, case arms), with a statement, a comment or a literal at every level
pub fn deep_program(rng: &mut Rng) -> String {
    let depth = rng.range(12, 40);
    let mut s = String::from("procedure Deep;\nbegin\n");
    let mut closers: Vec<String> = vec![];
    for d in 0..depth {
        let ind = "  ".repeat(d + 1);
        let (open, close): (String, String) = match rng.below(7) {
            0 => (format!("{ind}if A{d} then\n{ind}begin\n"), format!("{ind}end;\n")),
            1 => (format!("{ind}while B{d} do\n{ind}begin\n"), format!("{ind}end;\n")),
            2 => (format!("{ind}for I{d} := 0 to N do begin\n"), format!("{ind}end;\n")),
            3 => (format!("{ind}try\n"), format!("{ind}finally\n{ind}  Done{d};\n{ind}end;\n")),
            4 => (format!("{ind}repeat\n"), format!("{ind}until C{d};\n")),
            5 => (format!("{ind}case K{d} of\n{ind}  1: begin\n"), format!("{ind}  end;\n{ind}end;\n")),
            _ => (format!("{ind}begin\n"), format!("{ind}end;\n")),
        };
        s.push_str(&open);
        match rng.below(5) {
            0 => s.push_str(&format!("{ind}  // level {d}\n")),
            1 => s.push_str(&format!("{ind}  X{d} := Foo(A, B{d}) + 1;\n")),
            2 => s.push_str(&format!("{ind}  S{d} := '''\n{ind}    text {d}\n{ind}    ''';\n")),
            _ => {}
        }
        closers.push(close);
    }
    s.push_str(&format!("{}Innermost(1, 2, 3);\n", "  ".repeat(depth + 1)));
    while let Some(c) = closers.pop() {
        s.push_str(&c);
    }
    s.push_str("end;\n");
    s
}

/// 40 % seeds (incl. expected outputs), 60 % grammar programs
pub fn well_formed(ctx: &Ctx, rng: &mut Rng, max_size: usize) -> WellFormed {
    if rng.chance(1, 40) {
        return WellFormed { text: deep_program(rng), name: "deep-nesting".into(), prog: None, layout: None, seed_width: None };
    }
    well_formed_shallow(ctx, rng, max_size)
}

/// as `well_formed`, without the deeply nested routines: base material for mutation, splicing and
/// truncation (mutated 30-40 level programs are the known finding C04/deep-nesting-invalid-slow and
/// cost minutes each; C04's thorough tier has a segment for them)
pub fn well_formed_shallow(ctx: &Ctx, rng: &mut Rng, max_size: usize) -> WellFormed {
    if !ctx.seeds.is_empty() && rng.chance(2, 5) {
        let mut s = rng.pick(&ctx.seeds);
        // a few data tests exercise lexically broken code (unterminated literals/comments,
        // unknown characters): those are not well-formed programs
        let mut tries = 0;
        while tries < 8 && !lexically_sound(&s.text) {
            s = rng.pick(&ctx.seeds);
            tries += 1;
        }
        WellFormed { text: s.text.clone(), name: s.name.clone(), prog: None, layout: None, seed_width: Some(s.width) }
    } else {
        let mut deco = match rng.below(4) {
            0 => DecoOpts::none(),
            1 => DecoOpts::heavy(),
            _ => DecoOpts::light(),
        };
        // conditional elements inside comma-separated lists (arguments, sets, enums, uses)
        if rng.chance(1, 4) {
            deco.inline_cond = *rng.pick(&[60u32, 150, 400]);
        }
        gram_case(rng, max_size, &deco)
    }
}

/// any kind of input: well-formed, mutated, spliced, token soup, byte soup
pub fn mls_carrier(rng: &mut Rng) -> String {
    use crate::gen::mls;
    let carrier = *rng.pick(mls::CARRIERS);
    let n = mls::placeholders(carrier);
    let lits: Vec<mls::Mls> = (0..n).map(|_| mls::gen(rng)).collect();
    mls::place(carrier, &lits).0
}

pub fn any_input(ctx: &Ctx, rng: &mut Rng) -> (String, &'static str) {
    if rng.chance(1, 12) {
        return (mls_carrier(rng), "mls-carrier");
    }
    match rng.below(10) {
        0..=2 => (well_formed(ctx, rng, 25).text, "well-formed"),
        3..=4 => {
            let w = well_formed_shallow(ctx, rng, 15);
            (soup::mutate(rng, &w.text), "mutated")
        }
        5 => {
            let a = well_formed_shallow(ctx, rng, 10).text;
            let b = well_formed_shallow(ctx, rng, 10).text;
            let c = well_formed_shallow(ctx, rng, 10).text;
            (soup::splice(rng, &[&a, &b, &c]), "spliced")
        }
        6..=7 => (soup::random_seq(rng, 40), "token-soup"),
        8 => (soup::byte_soup(rng, 200), "byte-soup"),
        _ => {
            // truncated well-formed program
            let w = well_formed_shallow(ctx, rng, 15).text;
            let mut cut = rng.below(w.len() + 1);
            while !w.is_char_boundary(cut) {
                cut -= 1;
            }
            (w[..cut].to_string(), "truncated")
        }
    }
}

pub fn seed_is_wrap(k: &SeedKind) -> bool {
    matches!(k, SeedKind::WrapInput | SeedKind::WrapExpected)
}

/// run the formatter under the soft budget; registers slow/panic outcomes. Returns the
/// observation only when an output exists.
pub fn run(out: &mut CaseOut, cfg: &Cfg, input: &str) -> Option<(String, Obs)> {
    out.evals += 1;
    let obs = exec::format_simple(cfg, input);
    match &obs.out {
        Ok(s) => Some((s.clone(), obs)),
        Err(p) if p.step_limit => {
            out.count("skipped_slow");
            None
        }
        Err(_) => {
            // panics are C04's business; other monitors only count them
            out.count("panicked_calls");
            None
        }
    }
}

pub fn cfg_hist(out: &mut CaseOut, cfg: &Cfg) {
    out.count(&format!("cfg.width.{}", match cfg.wrap_column {
        0..=1 => "0-1",
        2..=39 => "2-39",
        40..=99 => "40-99",
        100..=300 => "100-300",
        _ => "huge",
    }));
    if cfg.use_tabs {
        out.count("cfg.use_tabs");
    }
    if cfg.crlf {
        out.count("cfg.crlf");
    }
    if cfg.always_wrap_begin {
        out.count("cfg.always_wrap");
    }
    if !cfg.format_multiline_strings {
        out.count("cfg.no_mlstr_format");
    }
}

pub fn lexically_sound(text: &str) -> bool {
    use crate::refscan::{self, RK};
    !refscan::scan(text).iter().any(|t| t.unterminated || matches!(t.kind, RK::UntermStr | RK::Unknown))
}
