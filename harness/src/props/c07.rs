//! C07 — verbatim regions and asm bodies byte for byte.

use super::common;
use super::wf;
use crate::cfg::Cfg;
use crate::gen::gram::GK;
use crate::gen::layout::{DecoOpts, Layout, Piece, PieceKind, Style};
use crate::oracle::{self, WsParams};
use crate::prop::{excerpt, short, CaseOut, Ctx, Prop, Tier};
use crate::refscan::NbIndex;
use crate::rng::{self, Rng};
use serde_json::json;

pub struct C07;

const OFF_SPELLINGS: &[&str] = &["{pasfmt off}", "// pasfmt off", "//pasfmt   OFF", "(* PasFmt Off *)", "{ pasfmt off: keep this }", "// pasfmt off because reasons", "{\tpasfmt\toff\t}", "(*pasfmt off*)", "// pasfmt off\u{3000}because", "{pasfmt off\u{2014}see above}", "(* pasfmt off\u{ff1a}reason *)"];
const ON_SPELLINGS: &[&str] = &["{pasfmt on}", "// pasfmt on", "(*pasfmt ON*)", "{ PASFMT  on }", "//pasfmt on again", "// pasfmt on\u{3000}again", "{ pasfmt on\u{2014} }"];
/// comments that look like toggles but are not (the words must be exactly pasfmt + on/off)
const LOOKALIKES: &[&str] = &["{pasfmt offx}", "// pasfmtoff", "{ pasfmt }", "// pasfmt of", "{ xpasfmt off }", "// not pasfmt off", "{pasfmt_off}", "(* pasfmt onn *)", "{ pasfmt\u{3000}off }", "{$pasfmt off}"];

pub const ASM_BODIES: &[&str] = &[
    "MOV EAX, [EBX+4]\n    @@loop:   DEC   ECX\n      JNZ @@loop",
    "mov  eax,1 ; xor ebx , ebx\n\tPUSH   EAX\n\n   pop eax   // trailing  ",
    "DB 'a''b', \"x\\\"y\"\n   mov al, 0FFh\n  .NOFRAME",
    "LEA  RAX,[RIP+Foo]\r\n   CALL   @Bar\r\n     RET",
    "mov eax,1 // x\n    // y\n  MOV ebx,2 { z }\n  // last",
    "@@1:  // first\n\n  // own line\n  ret",
    // toggle comments inside instruction lines: the whole body is verbatim whatever they say
    "{pasfmt off} mov eax,1\n  mov   eax,  {pasfmt on}   [ebx+4]\n  {PASFMT ON} mov   ecx,edx",
    "mov   eax,  (* pasfmt off *)  [ebx+4]\n    add eax ,1 // pasfmt on\n  sub   eax,2",
    "// pasfmt off\n  mov   eax,  { pasfmt on }   [ebx+4]   ;   inc   eax\n  ret",
    // conditional directives inside an instruction line
    "mov {$IFDEF CPUX64}rax{$ELSE}eax{$ENDIF}, 7\n  ret",
    "xor ecx,ecx\n  mov   {$ifdef A}ebx{$else}edx{$endif} ,  7\n  ret",
    // (a conditional directive that starts or ends a line of the body is the known finding
    // asm-line-starting-with-conditional-directive)
    "mov eax, 7\n  push {$ifdef A}1{$else}2{$endif}\n  ret",
    "mov {$IFDEF CPUX64}rax{$ELSE}eax{$ENDIF}, 7\n  {$ifdef debug} int 3 {$endif}\n  ret",
    "{$IFDEF CPUX64}\n  mov   rax,1\n{$ELSE}\n  mov   eax,1\n{$ENDIF}\n  ret",
];

/// some line of the asm body starts or ends with a conditional directive
fn asm_line_starts_with_conditional(body: &str) -> bool {
    crate::oracle::split_breaks(body).iter().any(|l| {
        let t = l.trim().to_ascii_lowercase();
        ["{$if", "(*$if", "{$else", "(*$else", "{$endif", "(*$endif", "{$ifend", "(*$ifend"].iter().any(|p| t.starts_with(p))
            || ["{$endif}", "{$ifend}", "(*$endif*)", "{$else}"].iter().any(|p| t.ends_with(p))
    })
}

struct Region {
    /// byte range in the input
    start: usize,
    end: usize,
    what: &'static str,
}

/// insert toggle comments around piece ranges of the layout and make the inside ugly
fn add_regions(lay: &mut Layout, rng: &mut Rng, n_regions: usize) -> Vec<(usize, usize, bool)> {
    // returns (index of off piece, index of on piece or last piece, closed)
    let mut regions = vec![];
    let mut cursor = 0usize;
    for r in 0..n_regions {
        let n = lay.pieces.len();
        if cursor + 3 >= n {
            break;
        }
        let i = rng.range(cursor, (cursor + n) / 2);
        let closed = !(r + 1 == n_regions && rng.chance(1, 4));
        let j = if closed { rng.range(i, (i + 12).min(n - 1)) } else { n - 1 };
        // do not start or end a region directly after a line comment without a break, keep the
        // existing gaps: the toggle comments are inserted with their own gaps
        let off = (*rng.pick(OFF_SPELLINGS)).to_string();
        let off_is_line = off.starts_with("//");
        let nl = lay.nl;
        // gap before the off comment: reuse the gap that preceded piece i
        let gap_before = std::mem::replace(&mut lay.gaps[i], if off_is_line { format!("{nl}   ") } else { (*rng.pick(&[" ", "  ", "\n\t ", "\t"])).to_string() });
        let gap_before = if i > 0 && lay.pieces[i - 1].kind == PieceKind::LineComment && !gap_before.contains('\n') { format!("{nl}{gap_before}") } else { gap_before };
        // never glue the toggle comment to the previous token (`/` + `// pasfmt off` would be a `///` comment)
        let gap_before = if gap_before.is_empty() && i > 0 { " ".to_string() } else { gap_before };
        lay.pieces.insert(i, Piece { kind: if off_is_line { PieceKind::LineComment } else { PieceKind::BlockComment }, text: off, verbatim: true });
        lay.gaps.insert(i, gap_before);
        // pieces i+1 ..= j+1 are inside
        let last_inside = j + 1;
        for p in (i + 1)..=last_inside {
            lay.pieces[p].verbatim = true;
            // uglify: gaps inside the region
            if p > i + 1 && !(lay.pieces[p - 1].kind == PieceKind::LineComment) && !lay.pieces[p].text.contains('\n') {
                let prev_safe = crate::gen::layout::safe_glue(&lay.pieces[p - 1], &lay.pieces[p]);
                lay.gaps[p] = match rng.below(8) {
                    0 if prev_safe => String::new(),
                    1 => "   ".to_string(),
                    2 => "\t".to_string(),
                    3 => format!("{nl}"),
                    4 => format!("  {nl}{nl}{nl}      "),
                    5 => " \r\n ".to_string(),
                    _ => lay.gaps[p].clone(),
                };
                if lay.gaps[p].is_empty() && !prev_safe {
                    lay.gaps[p] = " ".into();
                }
            }
            // uglify keyword case
            if let PieceKind::Tok(_) = lay.pieces[p].kind {
                let t = &lay.pieces[p].text;
                if crate::refscan::is_keyword_capable(t) && rng.bool() {
                    lay.pieces[p].text = t.to_ascii_uppercase();
                }
            }
        }
        let mut end_piece = last_inside;
        if closed {
            let on = (*rng.pick(ON_SPELLINGS)).to_string();
            let on_is_line = on.starts_with("//");
            let at = last_inside + 1;
            let gap_on = if lay.pieces[last_inside].kind == PieceKind::LineComment { format!("{nl}  ") } else { (*rng.pick(&[" ", "   ", "\n", "\t\t"])).to_string() };
            let gap_on = if gap_on.is_empty() { " ".to_string() } else { gap_on };
            lay.pieces.insert(at, Piece { kind: if on_is_line { PieceKind::LineComment } else { PieceKind::BlockComment }, text: on, verbatim: true });
            lay.gaps.insert(at, gap_on);
            // gap after the on comment
            if at + 1 < lay.gaps.len() && on_is_line && !lay.gaps[at + 1].contains('\n') {
                lay.gaps[at + 1] = format!("{nl}{}", lay.gaps[at + 1]);
            }
            end_piece = at;
            cursor = at + 1;
        } else {
            cursor = lay.pieces.len();
        }
        regions.push((i, end_piece, closed));
    }
    regions
}

/// some comment piece directly follows a head word of a type declaration (inside a region the
/// re-layout may have put it on its own line)
fn comment_after_type_head(lay: &Layout) -> bool {
    (1..lay.pieces.len()).any(|i| {
        matches!(lay.pieces[i].kind, PieceKind::LineComment | PieceKind::BlockComment)
            && (wf::is_type_head_word(&lay.pieces[i - 1].text.to_ascii_lowercase())
                || (i > 1 && lay.pieces[i - 1].text.eq_ignore_ascii_case("for") && lay.pieces[..i - 1].iter().rev().find(|q| matches!(q.kind, PieceKind::Tok(_) | PieceKind::Extra)).is_some_and(|q| q.text.eq_ignore_ascii_case("helper"))))
    })
}

impl Prop for C07 {
    fn id(&self) -> &'static str {
        "C07"
    }
    fn cases(&self, ctx: &Ctx) -> u64 {
        ctx.tier.pick(25_000, 300_000)
    }
    fn rule(&self) -> &'static str {
        "grammar programs with 1-3 `pasfmt off`..`pasfmt on` regions whose boundaries fall between any two tokens (inside expressions, before end of file, unclosed), all toggle spellings (//, {}, (* *), any letter case, extra blanks, trailing reason) and look-alikes that must not toggle; region content is made ugly on purpose (upper-case keywords, odd gaps, tabs, CRLF, blank-line runs, comments, directives, multi-line strings); asm blocks with instruction lines; the code outside the regions is laid out randomly; x sampled configurations. Oracles: the region's bytes occur unchanged at the place given by the count of preceding non-blank characters; asm instruction text unchanged; whitespace outside regions is canonical (so the rest was formatted); look-alikes do not switch formatting off. Non-trivial: region with >= 3 tokens whose formatting alone would change it; distinct by hash of (region text, configuration)."
    }
    fn floor(&self, tier: Tier) -> u64 {
        tier.pick(3_000, 50_000)
    }
    fn run_case(&self, ctx: &Ctx, idx: u64) -> CaseOut {
        let mut out = CaseOut::default();
        let mut rng = Rng::derive(ctx.seed, "C07", idx);
        for k in 0..10 {
            let mode = rng.below(10);
            let cfg = if rng.chance(1, 3) { Cfg::sample(&mut rng) } else { Cfg::sample_sane(&mut rng) };
            common::cfg_hist(&mut out, &cfg);
            if mode < 2 {
                // ---- asm bodies
                let body = *rng.pick(ASM_BODIES);
                let pre = *rng.pick(&["procedure P;\nbegin\n  X:=1;\n  asm", "procedure P; assembler;\nasm", "begin\n  if A then\n  asm", "procedure P;\nbegin\n  X:=1; {pasfmt off}\n  asm", "procedure P;\n{$IFDEF PUREPASCAL}\nbegin\n{$ELSE}\nasm\n{$ENDIF}"]);
                let gap = *rng.pick(&["\n    ", " ", "\n\n  \t", "   "]);
                let gap2 = *rng.pick(&["\n  ", " ", "\n\n\n"]);
                let post = if pre.starts_with("procedure P; assembler") || pre.contains("PUREPASCAL") { "end;\n" } else if pre.starts_with("begin\n  if") { "end;\nend;\n" } else { "end;\n  Y   :=  2;\nend;\n" };
                let mut input = format!("{pre}{gap}{body}{gap2}{post}");
                let body_cr: String;
                let gap_cr: String;
                let (body, gap) = if rng.chance(1, 5) {
                    // classic-Mac line ends: every break a lone CR
                    input = input.replace("\r\n", "\r").replace('\n', "\r");
                    body_cr = body.replace("\r\n", "\r").replace('\n', "\r");
                    gap_cr = gap.replace('\n', "\r");
                    out.count("gen.asm-cr-endings");
                    (body_cr.as_str(), gap_cr.as_str())
                } else {
                    (body, gap)
                };
                out.count("gen.asm");
                let Some((output, obs)) = common::run(&mut out, &cfg, &input) else { continue };
                let nb_in = NbIndex::new(&input);
                let nb_out = NbIndex::new(&output);
                let s = pre.len() + gap.len();
                let ord = nb_in.ordinal_at(s);
                let ok = nb_in.len() == nb_out.len() && nb_out.offset_of(ord).is_some_and(|o| output[o..].starts_with(body));
                if !ok {
                    out.violate("C07", if obs.has_fallback() { "wrap-fallback" } else if asm_line_starts_with_conditional(body) { "asm-line-starting-with-conditional-directive" } else { "asm-body-changed" }, format!("[{}] asm instruction lines not reproduced byte for byte: expected {:?} in output {:?}", cfg.short(), short(body, 120), short(&output, 300)), &input, Some(&cfg));
                }
                // the leading blanks of the first instruction are part of the verbatim text too
                if ok {
                    let o = nb_out.offset_of(ord).unwrap();
                    if !output[..o].ends_with(gap) {
                        out.violate("C07", if asm_line_starts_with_conditional(body) { "asm-line-starting-with-conditional-directive" } else { "asm-body-changed" }, format!("[{}] blanks in front of the first asm instruction changed: expected {:?}, output has {:?}", cfg.short(), gap, excerpt(&output, o, 12)), &input, Some(&cfg));
                    }
                }
                out.nontrivial.push(rng::hash_combine(rng::hash_str(&input), rng::hash_str(&cfg.short())));
                continue;
            }
            let w = common::gram_case(&mut rng, 20, &DecoOpts::light());
            let prog = w.prog.as_ref().unwrap();
            let mut lay = w.layout.clone().unwrap();
            // ugly layout outside so that formatting has to act
            let style = *rng.pick(&[Style::Random, Style::Random, Style::Canonical]);
            lay = lay.relayout(&mut rng, style, true).0;
            if mode == 2 {
                // ---- look-alike: must not toggle
                let n = lay.pieces.len();
                if n < 4 {
                    continue;
                }
                // put it in front of a statement start
                let cands: Vec<usize> = (1..n).filter(|&i| matches!(lay.pieces[i].kind, PieceKind::Tok(t) if prog.toks[t].line_start)).collect();
                if cands.is_empty() {
                    continue;
                }
                let i = *rng.pick(&cands);
                let la = (*rng.pick(LOOKALIKES)).to_string();
                let is_line = la.starts_with("//");
                let kind = if la.starts_with("{$") { PieceKind::Directive } else if is_line { PieceKind::LineComment } else { PieceKind::BlockComment };
                let nl = lay.nl;
                let g = std::mem::replace(&mut lay.gaps[i], format!("{nl}      "));
                lay.pieces.insert(i, Piece { kind, text: la.clone(), verbatim: false });
                lay.gaps.insert(i, if g.contains('\n') { g } else { format!("{nl}{g}") });
                let input = lay.render();
                out.count("gen.lookalike");
                let Some((output, obs)) = common::run(&mut out, &cfg, &input) else { continue };
                let p = WsParams { use_tabs: cfg.use_tabs, tab_width: cfg.tab_width, nl: cfg.nl(), check_eof: true };
                let issues = oracle::check_whitespace(&output, &p);
                let fb = wf::fallback_nb_ranges(&input, &obs);
                for is in issues.iter().take(1) {
                    let ord = crate::refscan::count_nonblank(&output[..is.at]);
                    if wf::in_ranges(&fb, ord) || (ord > 0 && wf::in_ranges(&fb, ord - 1)) || (is.rule == "indent-unit" && cfg.saturates()) {
                        continue;
                    }
                    out.violate("C07", "lookalike-toggles", format!("[{}] after the look-alike comment {:?} the code is not formatted: {} {} (…{:?}…)", cfg.short(), la, is.rule, is.detail, excerpt(&output, is.at, 40)), &input, Some(&cfg));
                }
                out.nontrivial.push(rng::hash_combine(rng::hash_str(&input), rng::hash_str(&cfg.short())));
                continue;
            }
            // ---- real regions
            let n_regions = rng.range(1, 3);
            let regions = add_regions(&mut lay, &mut rng, n_regions);
            if regions.is_empty() {
                continue;
            }
            // one case in five with lone CRs as line breaks everywhere (multi-line tokens keep theirs)
            let cr_layout = rng.chance(1, 5);
            if cr_layout {
                lay = lay.with_cr_endings();
                out.count("gen.regions-cr-endings");
            }
            let input = lay.render();
            let spans = lay.spans();
            out.count("gen.regions");
            let Some((output, obs)) = common::run(&mut out, &cfg, &input) else { continue };
            let nb_in = NbIndex::new(&input);
            let nb_out = NbIndex::new(&output);
            if nb_in.len() != nb_out.len() {
                out.count("unplaceable_outputs");
                continue;
            }
            let mut regs: Vec<Region> = vec![];
            for &(a, b, closed) in &regions {
                let start = spans[a].0;
                let end = if closed { spans[b].1 } else { input.len() };
                regs.push(Region { start, end, what: if closed { "closed region" } else { "region open until end of file" } });
            }
            for r in &regs {
                out.count("regions_checked");
                let text = &input[r.start..r.end];
                let ord = nb_in.ordinal_at(r.start);
                let Some(o) = nb_out.offset_of(ord) else { continue };
                let got = output.get(o..(o + text.len()).min(output.len())).unwrap_or("");
                if got != text {
                    // first differing byte
                    let d = text.bytes().zip(got.bytes()).position(|(x, y)| x != y).unwrap_or(got.len().min(text.len()));
                    out.violate(
                        "C07",
                        "region-changed",
                        format!("[{}] {} not reproduced byte for byte; first difference at region byte {d}: input …{:?}… output …{:?}…", cfg.short(), r.what, excerpt(text, d, 24), excerpt(got, d, 24)),
                        &input,
                        Some(&cfg),
                    );
                } else if r.what.starts_with("region open") && o + text.len() != output.len() {
                    out.violate("C07", "region-changed", format!("[{}] open region must run to the end of the output, but {} extra bytes follow", cfg.short(), output.len() - o - text.len()), &input, Some(&cfg));
                }
                // non-trivial: formatting the region alone changes it and it has >= 3 tokens
                let toks_in_region = crate::refscan::scan(text).len();
                if toks_in_region >= 5 {
                    out.nontrivial.push(rng::hash_combine(rng::hash_str(text), rng::hash_str(&cfg.short())));
                }
            }
            // outside the regions the code must be formatted (not judged on lone-CR inputs: the
            // whitespace model does not count a lone CR as a line break, C08/C09 lone-cr-line-break)
            if cr_layout {
                continue;
            }
            let p = WsParams { use_tabs: cfg.use_tabs, tab_width: cfg.tab_width, nl: cfg.nl(), check_eof: regions.iter().all(|r| r.2) };
            let issues = oracle::check_whitespace(&output, &p);
            let fb = wf::fallback_nb_ranges(&input, &obs);
            let orphans = wf::orphan_nb_ranges(&input);
            for is in issues.iter().take(1) {
                let ord = crate::refscan::count_nonblank(&output[..is.at]);
                if wf::in_ranges(&fb, ord) || (ord > 0 && wf::in_ranges(&fb, ord - 1)) || (is.rule == "indent-unit" && cfg.saturates()) {
                    out.count("outside_issue_in_fallback");
                    continue;
                }
                let toggle_after_type_head = regions.iter().any(|&(a, b, _)| {
                    [a, b].iter().any(|&p| {
                        p > 0
                            && (matches!(lay.pieces[p - 1].text.to_ascii_lowercase().as_str(), "class" | "record" | "interface" | "object" | "=" | "helper" | "packed" | "to" | "of" | "array" | "set" | "reference" | "function" | "procedure")
                                || (p > 1 && lay.pieces[p - 1].text.eq_ignore_ascii_case("for") && lay.pieces[..p - 1].iter().rev().find(|q| matches!(q.kind, PieceKind::Tok(_) | PieceKind::Extra)).is_some_and(|q| q.text.eq_ignore_ascii_case("helper"))))
                    })
                });
                let class = if wf::in_ranges(&orphans, ord) || (ord > 0 && wf::in_ranges(&orphans, ord - 1)) {
                    "child-of-verbatim-parent"
                } else if toggle_after_type_head || comment_after_type_head(&lay) {
                    "comment-after-type-head"
                } else {
                    "outside-not-formatted"
                };
                out.violate("C07", class, format!("[{}] code outside the verbatim regions is not canonical: {} {} (…{:?}…)", cfg.short(), is.rule, is.detail, excerpt(&output, is.at, 40)), &input, Some(&cfg));
            }
            let _ = GK::Ident;
            if out.sample.is_none() && idx < 32 {
                out.sample = Some(json!({"config": cfg.short(), "regions": regs.iter().map(|r| short(&input[r.start..r.end], 120)).collect::<Vec<_>>(), "input": short(&input, 240)}));
            }
        }
        out
    }
}
