//! C18 — batch equals one-at-a-time under any schedule.

use super::common;
use crate::cfg::Cfg;
use crate::cli::{self, Invocation, Scratch};
use crate::prop::{short, CaseOut, Ctx, Prop, Tier};
use crate::rng::{self, Rng};
use serde_json::json;
use std::collections::BTreeMap;
use std::path::{Path, PathBuf};

pub struct C18;

struct Member {
    rel: String,
    bytes: Vec<u8>,
    /// None: must succeed; Some(kind): must fail and stay untouched
    fail: Option<&'static str>,
}

fn make_content(ctx: &Ctx, rng: &mut Rng) -> Vec<u8> {
    // heavy-tailed sizes
    let size_class = rng.below(20);
    let mut text = String::new();
    match size_class {
        0 => text.push_str(" "),
        1 => text.push_str("x"),
        2..=12 => text = common::well_formed(ctx, rng, 12).text,
        13..=16 => {
            for _ in 0..rng.range(3, 10) {
                text.push_str(&common::well_formed(ctx, rng, 20).text);
                text.push('\n');
            }
        }
        17 => text = common::any_input(ctx, rng).0,
        _ => {
            // large file: many statements
            let n = rng.range(200, 3000);
            text.push_str("begin\n");
            for i in 0..n {
                text.push_str(&format!("  Foo{i}   :=  Bar{i}( A ,B )+{i} ;\n"));
            }
            text.push_str("end.\n");
        }
    }
    // a head comment with multi-byte characters at a varying small offset (fixed-size previews,
    // chunked reads and buffer boundaries meet characters in the middle)
    if rng.chance(1, 5) {
        let pad = "x".repeat(rng.range(0, 70));
        let tail = *rng.pick(&["ünï", "漢字", "😀😀", "é", "Ж"]);
        text = format!("// {pad}{tail}{tail}{tail}\n{text}");
    }
    // ugly trailing whitespace so that most files change
    text.push_str("   \n\n\n");
    match rng.below(10) {
        0 => [&[0xEFu8, 0xBB, 0xBF][..], text.as_bytes()].concat(),
        1 => [&[0xFFu8, 0xFE][..], &text.encode_utf16().flat_map(|u| u.to_le_bytes()).collect::<Vec<u8>>()[..]].concat(),
        2 => [&[0xFEu8, 0xFF][..], &text.encode_utf16().flat_map(|u| u.to_be_bytes()).collect::<Vec<u8>>()[..]].concat(),
        _ => text.into_bytes(),
    }
}

/// replace some identifiers and numbers by others of different length, keeping everything else
fn vary_tokens(text: &str, rng: &mut Rng) -> String {
    use crate::refscan::{self, RK};
    let toks = refscan::scan(text);
    let mut out = String::with_capacity(text.len() + 64);
    let mut pos = 0;
    for t in &toks {
        out.push_str(&text[pos..t.start]);
        let s = t.text(text);
        let replace = match t.kind {
            RK::Word if !refscan::is_keyword_capable(s) && !t.in_asm && rng.chance(1, 6) => Some(format!("{s}{}", rng.pick_str(&["X", "Longer", "_1", "WithAVeryLongSuffix"]))),
            RK::Number if s.bytes().all(|b| b.is_ascii_digit()) && rng.chance(1, 4) => Some(format!("{s}{}", rng.below(1000))),
            _ => None,
        };
        match replace {
            Some(r) => out.push_str(&r),
            None => out.push_str(s),
        }
        pos = t.end;
    }
    out.push_str(&text[pos..]);
    out
}

fn write_tree(root: &Path, members: &[Member]) {
    for m in members {
        let p = root.join(&m.rel);
        if let Some(parent) = p.parent() {
            let _ = std::fs::create_dir_all(parent);
        }
        match m.fail {
            Some("missing") => {}
            Some("directory") => {
                let _ = std::fs::create_dir_all(&p);
            }
            _ => {
                std::fs::write(&p, &m.bytes).unwrap();
                let _ = cli::set_mode(&p, 0o666);
            }
        }
    }
}

fn collect_dirs(root: &Path, out: &mut Vec<PathBuf>) {
    out.push(root.to_path_buf());
    if let Ok(rd) = std::fs::read_dir(root) {
        for e in rd.flatten() {
            if e.path().is_dir() {
                collect_dirs(&e.path(), out);
            }
        }
    }
}

impl Prop for C18 {
    fn id(&self) -> &'static str {
        "C18"
    }
    fn needs_cli(&self) -> bool {
        true
    }
    fn workers(&self) -> usize {
        4
    }
    fn cases(&self, ctx: &Ctx) -> u64 {
        ctx.tier.pick(128, 1_000)
    }
    fn rule(&self) -> &'static str {
        "real binary, files mode (and, one batch in three, stdout mode first: the batch output must consist of exactly the sections the members print alone, each contiguous): batches of 20-120 (quick) / 20-400 (thorough) files with heavy-tailed sizes (1 byte to ~150 KiB), mixed BOM encodings (none, UTF-8, UTF-16LE/BE), duplicated names in sub-directories, names that differ only in letter case, failing subsets (missing, undecodable, directory named *.pas) x RAYON_NUM_THREADS in {1,2,3,8,16,64} x PASFMT_VERIF_DELAY_SEED (hook: deterministic per-file delays before read and before write move the work-stealing decisions); oracle: every file byte-equal to the result of formatting it alone with the same binary; failing members untouched, others unaffected; exit status != 0 iff some member failed. The schedule is observed through the hook trace (thread, order, reused buffer capacity): evidence counts distinct schedules and shorter-after-longer buffer reuses. Non-trivial: batch in which some worker handled >= 3 files of different lengths; distinct by schedule signature."
    }
    fn floor(&self, tier: Tier) -> u64 {
        tier.pick(20, 400)
    }
    fn post(&self, ctx: &Ctx) -> Option<CaseOut> {
        if ctx.tier != Tier::Thorough {
            return None;
        }
        let mut out = CaseOut::default();
        crate::sanit::tsan_batches(ctx, &mut out);
        Some(out)
    }
    fn assumptions(&self) -> Vec<String> {
        vec!["schedules are sampled and perturbed, not enumerated; the race detector pass (TSan build) runs in the thorough tier only".into()]
    }
    fn run_case(&self, ctx: &Ctx, idx: u64) -> CaseOut {
        let mut out = CaseOut::default();
        let mut rng = Rng::derive(ctx.seed, "C18", idx);
        let scratch = Scratch::new(&ctx.work_dir, "c18");
        let batch_root = scratch.path.join("batch");
        let solo_root = scratch.path.join("solo");
        std::fs::create_dir_all(&batch_root).unwrap();
        if idx % 32 == 3 {
            // ---- a batch with very many failing members (counts around 256 and 512): every good
            // member is still formatted and the exit status is non-zero whatever the number of failures
            let n_bad = *rng.pick(&[255usize, 256, 256, 257, 512]);
            let n_good = rng.range(3, 12);
            let cfg = Cfg::sample_sane(&mut rng);
            for i in 0..n_bad {
                std::fs::write(batch_root.join(format!("bad{i}.pas")), b"begin x := '\xff\xfe'; end.").unwrap();
            }
            let good_text = "begin\n  Foo   :=  Bar( A ,B )+1 ;\nend.\n";
            let Some((expected, _)) = common::run(&mut out, &cfg, good_text) else { return out };
            for i in 0..n_good {
                std::fs::write(batch_root.join(format!("good{i}.pas")), good_text).unwrap();
            }
            let threads = *rng.pick(&[1usize, 2, 8, 16]);
            let mut a = cfg.to_cli_args();
            a.push(".".into());
            out.evals += 1;
            out.count(&format!("many_failing_members.{n_bad}"));
            let r = cli::run(Invocation { bin: &ctx.cli_bin, args: a, cwd: &batch_root, stdin: None, env: vec![("RAYON_NUM_THREADS".into(), threads.to_string())], as_nobody: false });
            if r.ok() {
                out.violate("C18", "exit-status", format!("[{}] {n_bad} members failed to decode but the exit status is 0 ({threads} threads)", cfg.short()), "", Some(&cfg));
            }
            for i in 0..n_good {
                let got = std::fs::read(batch_root.join(format!("good{i}.pas"))).unwrap_or_default();
                if got != expected.as_bytes() {
                    out.violate("C18", "member-differs", format!("[{}] good member good{i}.pas next to {n_bad} failing members is not formatted as it is alone", cfg.short()), good_text, Some(&cfg));
                    break;
                }
            }
            out.nontrivial.push(rng::hash_str(&format!("many{n_bad}-{threads}")));
            return out;
        }
        std::fs::create_dir_all(&solo_root).unwrap();
        let n = rng.range(20, ctx.tier.pick(120, 400));
        let cfg = Cfg::sample_sane(&mut rng);
        let mut members: Vec<Member> = vec![];
        let mut distinct: Vec<Vec<u8>> = vec![];
        for i in 0..n {
            let sub = match rng.below(4) {
                0 => "",
                1 => "a/",
                2 => "a/b/",
                _ => "c/",
            };
            let mut name = if rng.chance(1, 6) { "unit.pas".to_string() } else { format!("u{i}.{}", rng.pick(&["pas", "dpr", "dpk"])) };
            // paths that differ from an earlier member only in letter case are different files
            // (case-sensitive file system): `a/Unit.pas` next to `a/unit.pas`, `U7.PAS` next to `u7.pas`
            if rng.chance(1, 10) {
                if let Some(m) = members.iter().filter(|m| m.rel.starts_with(sub) && !m.rel[sub.len()..].contains('/')).last() {
                    let base = &m.rel[sub.len()..];
                    name = if rng.bool() { base.to_ascii_uppercase() } else { let mut c = base.chars(); c.next().map(|f| f.to_ascii_uppercase().to_string() + c.as_str()).unwrap_or_default() };
                }
            }
            let rel = format!("{sub}{name}");
            if members.iter().any(|m| m.rel == rel) {
                continue;
            }
            let fail = match rng.below(40) {
                0 => Some("missing"),
                1 => Some("undecodable"),
                2 => Some("directory"),
                _ => None,
            };
            let bytes = match fail {
                Some("undecodable") => b"begin   \xff\xfe x ;  end.   ".to_vec(),
                Some(_) => vec![],
                None => {
                    if !distinct.is_empty() && rng.chance(1, 5) {
                        rng.pick(&distinct).clone()
                    } else if !distinct.is_empty() && rng.chance(1, 3) {
                        // near-duplicate: same structure and token positions, a few identifiers / numbers
                        // of other lengths (what a per-thread cache keyed by position would confuse)
                        let base = rng.pick(&distinct).clone();
                        match String::from_utf8(base.clone()) {
                            Ok(text) => {
                                let c = vary_tokens(&text, &mut rng).into_bytes();
                                distinct.push(c.clone());
                                c
                            }
                            Err(_) => base,
                        }
                    } else {
                        let c = make_content(ctx, &mut rng);
                        distinct.push(c.clone());
                        c
                    }
                }
            };
            members.push(Member { rel, bytes, fail });
        }
        write_tree(&batch_root, &members);
        write_tree(&solo_root, &members);
        // ---- reference: each file alone
        let mut reference: BTreeMap<String, (Vec<u8>, bool)> = BTreeMap::new();
        let mut cache: BTreeMap<u64, (Vec<u8>, bool)> = BTreeMap::new();
        for m in &members {
            if m.fail == Some("missing") || m.fail == Some("directory") {
                reference.insert(m.rel.clone(), (vec![], false));
                continue;
            }
            let h = rng::hash_bytes(&m.bytes);
            if let Some(r) = cache.get(&h) {
                reference.insert(m.rel.clone(), r.clone());
                continue;
            }
            let mut a = cfg.to_cli_args();
            a.push(m.rel.clone());
            out.evals += 1;
            let r = cli::run(Invocation { bin: &ctx.cli_bin, args: a, cwd: &solo_root, stdin: None, env: vec![("RAYON_NUM_THREADS".into(), "1".into())], as_nobody: false });
            let after = std::fs::read(solo_root.join(&m.rel)).unwrap_or_default();
            cache.insert(h, (after.clone(), r.ok()));
            reference.insert(m.rel.clone(), (after, r.ok()));
        }
        // ---- stdout mode (one batch in three): the batch prints one section per file, in any order; every
        // section must be the contiguous bytes the file prints alone and nothing else may be printed.
        // Runs first: stdout mode leaves batch_root as written above.
        if rng.chance(1, 3) {
            let so_threads = *rng.pick(&[2usize, 3, 8, 16]);
            let mut sections: Vec<(String, Vec<u8>)> = vec![];
            for m in &members {
                let mut a = cfg.to_cli_args();
                a.extend(["--mode".to_string(), "stdout".to_string(), m.rel.clone()]);
                out.evals += 1;
                let r = cli::run(Invocation { bin: &ctx.cli_bin, args: a, cwd: &batch_root, stdin: None, env: vec![("RAYON_NUM_THREADS".into(), "1".into())], as_nobody: false });
                if r.timed_out {
                    out.count("batch_run_inconclusive");
                    return out;
                }
                sections.push((m.rel.clone(), r.stdout));
            }
            let mut a = cfg.to_cli_args();
            a.extend(["--mode".to_string(), "stdout".to_string()]);
            for m in &members {
                a.push(m.rel.clone());
            }
            out.evals += 1;
            let r = cli::run(Invocation {
                bin: &ctx.cli_bin,
                args: a,
                cwd: &batch_root,
                stdin: None,
                env: vec![("RAYON_NUM_THREADS".into(), so_threads.to_string()), ("PASFMT_VERIF_DELAY_SEED".into(), rng.below(1_000_000).to_string()), ("PASFMT_VERIF_DELAY_MAX_US".into(), rng.pick(&[0u32, 200, 2000]).to_string())],
                as_nobody: false,
            });
            if r.timed_out || (r.code.is_none() && r.signal.is_none()) {
                out.count("batch_run_inconclusive");
                return out;
            }
            out.count("stdout_mode_batches");
            let total: usize = sections.iter().map(|s| s.1.len()).sum();
            let mut bad: Option<String> = None;
            if r.stdout.len() != total {
                bad = Some(format!("batch printed {} bytes, the members alone print {} bytes in total", r.stdout.len(), total));
            }
            for (rel, sec) in &sections {
                out.count("stdout_sections_compared");
                if sec.len() > 8192 {
                    out.count("stdout_sections_over_8k");
                }
                if bad.is_none() && !sec.is_empty() && !contains_bytes(&r.stdout, sec) {
                    bad = Some(format!("the {} bytes that {rel} prints alone do not appear contiguously in the batch output", sec.len()));
                }
            }
            if let Some(b) = bad {
                out.violate("C18", "stdout-batch-differs-from-solo", format!("[--mode stdout, {} threads, {} files] {b}", so_threads, members.len()), "", Some(&cfg));
            }
            for m in &members {
                if m.fail.is_none() && std::fs::read(batch_root.join(&m.rel)).ok().as_deref() != Some(&m.bytes[..]) {
                    out.violate("C18", "stdout-mode-modified-file", format!("--mode stdout changed {}", m.rel), "", Some(&cfg));
                    return out;
                }
            }
        }
        // ---- the batch, with schedule trace and perturbation
        let threads = *rng.pick(&[1usize, 2, 3, 8, 16, 64]);
        let delay_seed = rng.below(1_000_000);
        let mut args = cfg.to_cli_args();
        // log verbosity must not change what happens to the files
        // (debug output is large: one batch in eight; trace output is not used, it renders every search)
        match rng.below(8) {
            0 => args.push("-v".into()),
            1 => args.extend(["--log-level".to_string(), "DEBUG".to_string()]),
            2 => args.extend(["--log-level".to_string(), "ERROR".to_string()]),
            _ => {}
        }
        let mut dirs = vec![];
        collect_dirs(&batch_root, &mut dirs);
        let form = rng.below(3);
        match form {
            0 => args.push(".".into()),
            1 => {
                // explicit list incl. the failing members (a directory walk would not see missing files)
                for m in &members {
                    args.push(m.rel.clone());
                }
            }
            _ => {
                let list: String = members.iter().map(|m| format!("{}\n", m.rel)).collect();
                std::fs::write(scratch.path.join("list.txt"), list).unwrap();
                args.push("--files-from".into());
                args.push(scratch.path.join("list.txt").to_string_lossy().to_string());
            }
        }
        out.count(&format!("path_form.{}", ["directory", "explicit", "files-from"][form]));
        out.count(&format!("threads.{threads}"));
        out.evals += 1;
        let r = cli::run(Invocation {
            bin: &ctx.cli_bin,
            args,
            cwd: &batch_root,
            stdin: None,
            env: vec![
                ("RAYON_NUM_THREADS".into(), threads.to_string()),
                ("PASFMT_VERIF_TRACE".into(), "1".into()),
                ("PASFMT_VERIF_DELAY_SEED".into(), delay_seed.to_string()),
                ("PASFMT_VERIF_DELAY_MAX_US".into(), rng.pick(&[0u32, 200, 2000, 5000]).to_string()),
            ],
            as_nobody: false,
        });
        if r.timed_out || (r.code.is_none() && r.signal.is_none()) {
            out.count("batch_run_inconclusive");
            return out;
        }
        if let Some(sig) = r.signal {
            out.violate("C18", "batch-killed", format!("batch run killed by signal {sig}"), "", Some(&cfg));
            return out;
        }
        // a directory walk does not see missing files and directories named *.pas are walked, not opened
        let visible_failure = |m: &Member| match (form, m.fail) {
            // a directory walk cannot see a missing file; a directory named *.pas is yielded by the walk
            // and fails to open, like everywhere else
            (0, Some("missing")) => false,
            (_, Some(_)) => true,
            _ => false,
        };
        let expect_fail = members.iter().any(|m| visible_failure(m) || (m.fail.is_none() && !reference[&m.rel].1));
        if r.ok() == expect_fail {
            out.violate("C18", "exit-status", format!("[{} threads] exit status {:?} but {} member(s) were expected to fail; stderr: {}", threads, r.code, members.iter().filter(|m| visible_failure(m)).count(), short(&r.stderr_text().lines().filter(|l| !l.starts_with("VERIF")).collect::<Vec<_>>().join(" | "), 300)), "", Some(&cfg));
        }
        let mut mismatches = 0;
        for m in &members {
            match m.fail {
                Some("missing") | Some("directory") => continue,
                _ => {}
            }
            let got = std::fs::read(batch_root.join(&m.rel)).unwrap_or_default();
            let (want, _) = &reference[&m.rel];
            out.count("files_compared");
            if &got != want {
                mismatches += 1;
                if mismatches <= 2 {
                    let class = if m.fail.is_some() { "failed-file-touched" } else if got.len() > want.len() && got.starts_with(want) { "stale-tail-in-batch" } else { "batch-differs-from-solo" };
                    out.violate("C18", class, format!("[{} threads, delay seed {delay_seed}] {}: {} bytes in the batch vs {} bytes when formatted alone", threads, m.rel, got.len(), want.len()), &String::from_utf8_lossy(&m.bytes[..m.bytes.len().min(4000)]), Some(&cfg));
                }
            }
        }
        // ---- schedule from the trace
        let mut per_thread: BTreeMap<String, Vec<(String, u64)>> = BTreeMap::new();
        for line in r.stderr_text().lines() {
            if let Some(rest) = line.strip_prefix("VERIF file=") {
                let mut file = String::new();
                let mut thread = String::new();
                let mut cap = 0u64;
                let parts: Vec<&str> = rest.rsplitn(4, ' ').collect();
                // rsplitn gives: buf_cap=.., nth_on_thread=.., thread=.., <file>
                if parts.len() == 4 {
                    file = parts[3].to_string();
                    thread = parts[2].trim_start_matches("thread=").to_string();
                    cap = parts[0].trim_start_matches("buf_cap=").parse().unwrap_or(0);
                }
                per_thread.entry(thread).or_default().push((file, cap));
            }
        }
        let mut sig = 0u64;
        let mut reuse_shorter_after_longer = 0u64;
        let mut nontrivial_batch = false;
        for (t, files) in &per_thread {
            sig = rng::hash_combine(sig, rng::hash_str(t));
            let mut lens = vec![];
            for (f, cap) in files {
                sig = rng::hash_combine(sig, rng::hash_str(f));
                let len = std::fs::metadata(solo_root.join(f.trim_start_matches("./"))).map(|m| m.len()).unwrap_or(0);
                let orig = members.iter().find(|m| m.rel == f.trim_start_matches("./")).map(|m| m.bytes.len() as u64).unwrap_or(len);
                if *cap > orig && *cap > 0 {
                    reuse_shorter_after_longer += 1;
                }
                lens.push(orig);
            }
            lens.sort_unstable();
            lens.dedup();
            if files.len() >= 3 && lens.len() >= 3 {
                nontrivial_batch = true;
            }
        }
        out.add("buffer_reuse_shorter_after_longer", reuse_shorter_after_longer);
        out.add("worker_threads_observed", per_thread.len() as u64);
        if nontrivial_batch {
            out.nontrivial.push(sig);
        }
        if idx < 2 {
            out.sample = Some(json!({"files": members.len(), "threads": threads, "delay seed": delay_seed, "threads observed": per_thread.len(), "first thread's files": per_thread.values().next().map(|v| v.iter().take(6).map(|x| x.0.clone()).collect::<Vec<_>>()), "failing members": members.iter().filter(|m| m.fail.is_some()).map(|m| (m.rel.clone(), m.fail)).collect::<Vec<_>>()}));
        }
        out
    }
}

fn contains_bytes(hay: &[u8], needle: &[u8]) -> bool {
    if needle.len() > hay.len() {
        return false;
    }
    let first = needle[0];
    let mut i = 0;
    while i + needle.len() <= hay.len() {
        match hay[i..=hay.len() - needle.len()].iter().position(|&b| b == first) {
            None => return false,
            Some(k) => {
                i += k;
                if &hay[i..i + needle.len()] == needle {
                    return true;
                }
                i += 1;
            }
        }
    }
    false
}
