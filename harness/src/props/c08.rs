//! C08 — canonical output whitespace.

use super::common;
use super::wf;
use crate::cfg::Cfg;
use crate::oracle::{self, WsParams};
use crate::prop::{excerpt, short, CaseOut, Ctx, Prop, Tier};
use crate::refscan;
use crate::rng::{self, Rng};
use serde_json::json;

pub struct C08;

pub fn check_ws(out: &mut CaseOut, prop: &str, name: &str, input: &str, output: &str, cfg: &Cfg, obs: &crate::exec::Obs, well_formed: bool) -> usize {
    let p = WsParams { use_tabs: cfg.use_tabs, tab_width: cfg.tab_width, nl: cfg.nl(), check_eof: well_formed };
    let issues = oracle::check_whitespace(output, &p);
    if issues.is_empty() {
        return 0;
    }
    let lone_cr = wf::lone_cr_after_line_bound_token(input);
    let fb = wf::fallback_nb_ranges(input, obs);
    let orphans = if input.to_ascii_lowercase().contains("pasfmt") { wf::orphan_nb_ranges(input) } else { vec![] };
    let n_out_tokens = refscan::scan(output).len();
    let mut reported = 0;
    for is in &issues {
        // the offending gap, as a non-blank ordinal (equal in input and output when C01 holds)
        let ord = refscan::count_nonblank(&output[..is.at]);
        let class = if wf::in_ranges(&fb, ord) || (ord > 0 && wf::in_ranges(&fb, ord - 1)) {
            "wrap-fallback".to_string()
        } else if is.rule == "indent-unit" && cfg.saturates() {
            "u8-saturation".to_string()
        } else if wf::in_ranges(&orphans, ord) || (ord > 0 && wf::in_ranges(&orphans, ord - 1)) {
            "child-of-verbatim-parent".to_string()
        } else if lone_cr {
            "lone-cr-line-break".to_string()
        } else if !well_formed && is.next_tok == n_out_tokens {
            "invalid-input-eof-tail".to_string()
        } else {
            is.rule.to_string()
        };
        out.count(&format!("issue.{class}"));
        if reported < 2 {
            out.violate(prop, &class, format!("{name} [{}] {}: {} (…{:?}…)", cfg.short(), is.rule, is.detail, excerpt(output, is.at, 40)), input, Some(cfg));
            reported += 1;
        }
    }
    issues.len()
}

impl Prop for C08 {
    fn id(&self) -> &'static str {
        "C08"
    }
    fn cases(&self, ctx: &Ctx) -> u64 {
        ctx.tier.pick(12_000, 200_000)
    }
    fn rule(&self) -> &'static str {
        "all generators (well-formed, mutated, spliced, truncated, token soup, byte soup) x randomly sampled full configurations (incl. tab_width 0/255, continuation 0/255, tabs, crlf); oracle on the gaps between reference-scanner tokens of the output, outside verbatim regions/asm and multi-line token interiors: no blanks before a line break, <= 1 space and no tab between tokens, no two consecutive blank lines, no blank first line, indentation made of whole units (tabs only / multiple of tab_width); for well-formed inputs exactly one final line terminator. Non-trivial: output has >= 3 lines and differs from the input; distinct by input hash + configuration."
    }
    fn floor(&self, tier: Tier) -> u64 {
        tier.pick(5_000, 100_000)
    }
    fn run_case(&self, ctx: &Ctx, idx: u64) -> CaseOut {
        let mut out = CaseOut::default();
        let mut rng = Rng::derive(ctx.seed, "C08", idx);
        for k in 0..30 {
            let (input, kind, wf_) = if rng.chance(2, 5) {
                let w = common::well_formed(ctx, &mut rng, 30);
                let sound = common::lexically_sound(&w.text);
                (w.text, if w.prog.is_some() { "gram" } else { "seed" }, sound)
            } else {
                let (i, k) = common::any_input(ctx, &mut rng);
                (i, k, false)
            };
            let cfg = Cfg::sample(&mut rng);
            out.count(&format!("gen.{kind}"));
            common::cfg_hist(&mut out, &cfg);
            if !wf_ && crate::refscan::scan(&input).iter().any(|t| t.in_asm) {
                // asm bodies in broken code: the reference scanner's asm mode is only an approximation
                out.count("skipped_asm_in_invalid_input");
                continue;
            }
            let Some((output, obs)) = common::run(&mut out, &cfg, &input) else { continue };
            let n = check_ws(&mut out, "C08", kind, &input, &output, &cfg, &obs, wf_);
            if obs.has_fallback() {
                out.count("calls_with_wrap_fallback");
            }
            if output != input && oracle::line_count(&output) >= 3 {
                out.nontrivial.push(rng::hash_combine(rng::hash_str(&input), rng::hash_str(&cfg.short())));
            }
            if out.sample.is_none() && idx < 32 {
                out.sample = Some(json!({"generator": kind, "config": cfg.short(), "input": short(&input, 200), "output": short(&output, 200), "whitespace issues": n}));
            }
        }
        out
    }
}
