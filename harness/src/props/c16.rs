//! C16 — the three CLI modes agree and only files mode writes.

use super::common;
use crate::cfg::Cfg;
use crate::cli::{self, Invocation, Scratch};
use crate::prop::{short, CaseOut, Ctx, Prop, Tier};
use crate::rng::{self, Rng};
use serde_json::json;
use std::path::Path;

pub struct C16;

thread_local! {
    /// `-C encoding=<label>` of the current case (empty: default UTF-8)
    static ENC_ARGS: std::cell::RefCell<Vec<String>> = const { std::cell::RefCell::new(Vec::new()) };
}

thread_local! {
    /// log verbosity flags of the current case (must not influence results or exit status)
    static LOG_ARGS: std::cell::RefCell<Vec<String>> = const { std::cell::RefCell::new(vec![]) };
}

fn args_with(cfg: &Cfg, extra: &[&str]) -> Vec<String> {
    let mut v = cfg.to_cli_args();
    ENC_ARGS.with(|e| v.extend(e.borrow().iter().cloned()));
    LOG_ARGS.with(|e| v.extend(e.borrow().iter().cloned()));
    v.extend(extra.iter().map(|s| s.to_string()));
    v
}

fn encode_for_case(text: &str) -> Option<Vec<u8>> {
    ENC_ARGS.with(|e| {
        let e = e.borrow();
        match e.get(1).and_then(|a| a.strip_prefix("encoding=")) {
            None => Some(text.as_bytes().to_vec()),
            Some(label) => {
                let enc = encoding_rs::Encoding::for_label(label.as_bytes())?;
                let (b, _, bad) = enc.encode(text);
                if bad { None } else { Some(b.into_owned()) }
            }
        }
    })
}

/// variants of a text with more / less / equal whitespace than its formatted form
fn variants(rng: &mut Rng, formatted: &str, original: &str) -> Vec<(&'static str, String)> {
    let mut v = vec![("original", original.to_string()), ("already-formatted", formatted.to_string())];
    // inflate: result shorter than input
    let mut inflated = String::new();
    for ch in formatted.chars() {
        inflated.push(ch);
        if ch == ' ' && rng.chance(1, 2) {
            inflated.push_str("    ");
        }
        if ch == '\n' && rng.chance(1, 4) {
            inflated.push_str("   \t");
        }
    }
    inflated.push_str("\n\n\n      \n");
    v.push(("inflated", inflated));
    // deflate: result longer than input (indentation and line structure removed where safe)
    let lay = crate::gen::layout::Layout::from_text(original);
    let mut r2 = rng.clone();
    let (l2, _) = lay.relayout(&mut r2, crate::gen::layout::Style::OneLine, true);
    v.push(("one-line", l2.render()));
    v.push(("empty", String::new()));
    v
}

struct Failure {
    class: &'static str,
    detail: String,
}

fn run_bin(ctx: &Ctx, cwd: &Path, args: Vec<String>, stdin: Option<Vec<u8>>, as_nobody: bool) -> cli::RunOut {
    cli::run(Invocation { bin: &ctx.cli_bin, args, cwd, stdin, env: vec![("RAYON_NUM_THREADS".into(), "2".into())], as_nobody })
}

fn check_content(ctx: &Ctx, out: &mut CaseOut, dir: &Path, cfg: &Cfg, label: &str, content: &str, rng: &mut Rng) -> Vec<Failure> {
    let mut fails = vec![];
    // the file's bytes in the case's encoding
    let Some(content_bytes) = encode_for_case(content) else {
        out.count("variant_not_encodable_skipped");
        return fails;
    };
    let content: &[u8] = &content_bytes;
    // reference: stdin -> stdout of the same binary
    out.evals += 1;
    let r = run_bin(ctx, dir, args_with(cfg, &[]), Some(content.to_vec()), false);
    if !r.ok() {
        out.count("reference_run_failed");
        return fails;
    }
    let reference = r.stdout;
    let formatted_already = reference == content;
    out.count(if reference.len() < content.len() { "result_shorter" } else if reference.len() > content.len() { "result_longer" } else { "result_same_length" });
    let sub = dir.join(format!("d{}", rng.below(1000)));
    let _ = std::fs::create_dir_all(&sub);
    let ext = *rng.pick(&["pas", "dpr", "dpk", "PAS"]);
    // (names with glob metacharacters other than `*` are ordinary file names on this platform and
    // are only ever passed as explicit paths / list entries here)
    let stem = *rng.pick(&["unit", "unit", "unit", "Unit1[1]", "what?", "a b", "x{1}", "ünï", "-dash", "u#1"]);
    let file = sub.join(format!("{stem}{}.{ext}", rng.below(1000)));
    let rel = file.strip_prefix(dir).unwrap().to_string_lossy().to_string();
    // ---- stdout mode never writes
    std::fs::write(&file, content).unwrap();
    cli::age_file(&file);
    let before = cli::stat(&file);
    out.evals += 1;
    let r = run_bin(ctx, dir, args_with(cfg, &["--mode", "stdout", &rel]), None, false);
    if std::fs::read(&file).ok().as_deref() != Some(content) || cli::stat(&file) != before {
        fails.push(Failure { class: "stdout-mode-wrote", detail: format!("{label}: stdout mode changed the file (bytes/mtime/inode)") });
    }
    // stdout mode on files prints UTF-8 whatever the file's encoding: compare only for UTF-8 cases
    let mut expect = format!("{rel}:\n").into_bytes();
    // (files are concatenated as text: a byte-order mark of the file is not repeated there)
    const BOM: &[u8] = &[0xEF, 0xBB, 0xBF];
    expect.extend_from_slice(if content.starts_with(BOM) { reference.strip_prefix(BOM).unwrap_or(&reference) } else { &reference });
    expect.push(b'\n');
    let utf8_case = ENC_ARGS.with(|e| e.borrow().is_empty());
    if utf8_case && r.ok() && r.stdout != expect {
        fails.push(Failure { class: "stdout-mode-differs", detail: format!("{label}: stdout mode printed {:?}, expected header + the stdin->stdout result {:?}", short(&String::from_utf8_lossy(&r.stdout), 120), short(&String::from_utf8_lossy(&expect), 120)) });
    }
    // ---- check mode
    out.evals += 1;
    let r = run_bin(ctx, dir, args_with(cfg, &["--mode", "check", &rel]), None, false);
    if std::fs::read(&file).ok().as_deref() != Some(content) || cli::stat(&file) != before {
        fails.push(Failure { class: "check-mode-wrote", detail: format!("{label}: check mode changed the file") });
    }
    if r.ok() != formatted_already {
        fails.push(Failure { class: "check-mode-status", detail: format!("{label}: check mode exit status {:?}, but content {} its formatted form", r.code, if formatted_already { "equals" } else { "differs from" }) });
    }
    // check mode on stdin
    out.evals += 1;
    let r = run_bin(ctx, dir, args_with(cfg, &["--mode", "check"]), Some(content.to_vec()), false);
    if r.ok() != formatted_already {
        fails.push(Failure { class: "check-mode-status", detail: format!("{label}: check mode on stdin exit status {:?}, content formatted: {formatted_already}", r.code) });
    }
    // ---- files mode, through one of the path forms
    let form = rng.below(4);
    let list = dir.join("files.txt");
    let path_args: Vec<String> = match form {
        0 => vec![rel.clone()],
        1 => vec![sub.strip_prefix(dir).unwrap().to_string_lossy().to_string()],
        2 => vec![format!("{}/*.{ext}", sub.strip_prefix(dir).unwrap().to_string_lossy())],
        _ => {
            std::fs::write(&list, format!("{rel}\n")).unwrap();
            vec!["--files-from".into(), "files.txt".into()]
        }
    };
    out.count(&format!("path_form.{}", ["file", "directory", "glob", "files-from"][form]));
    out.evals += 1;
    let mut a = args_with(cfg, &[]);
    a.extend(path_args);
    let r = run_bin(ctx, dir, a, None, false);
    let after = std::fs::read(&file).unwrap_or_default();
    if !r.ok() {
        fails.push(Failure { class: "files-mode-failed", detail: format!("{label}: files mode exit {:?}: {}", r.code, short(&r.stderr_text(), 200)) });
    } else if after != reference {
        let class = if after.len() > reference.len() && after.starts_with(&reference) { "stale-tail" } else { "files-mode-differs" };
        fails.push(Failure { class, detail: format!("{label}: file holds {} bytes after files mode, stdin->stdout printed {} bytes; file tail {:?}", after.len(), reference.len(), short(&String::from_utf8_lossy(&after[after.len().saturating_sub(60)..]), 80)) });
    }
    if formatted_already && cli::stat(&file) != before {
        fails.push(Failure { class: "rewrote-unchanged-file", detail: format!("{label}: file was already formatted but files mode rewrote it (mtime changed)") });
    }
    let _ = std::fs::remove_dir_all(&sub);
    fails
}

#[derive(Default, Debug)]
struct SysLog {
    /// flags of every openat of the target path
    opens: Vec<String>,
    /// bytes written to descriptors of the target (successful writes)
    written: u64,
    writes: u32,
    truncates: Vec<u64>,
    unlinks_or_renames: u32,
}

/// offline checker over a recorded syscall log (strace -f): what happened to `target`?
fn parse_strace(log: &str, target: &str) -> SysLog {
    let mut s = SysLog::default();
    let mut fds: std::collections::HashSet<String> = Default::default();
    for line in log.lines() {
        // "<pid>  call(args) = ret"
        let Some((_, rest)) = line.trim_start().split_once(char::is_whitespace) else { continue };
        let rest = rest.trim_start();
        let ret = rest.rsplit_once(" = ").map(|x| x.1.trim()).unwrap_or("");
        if let Some(args) = rest.strip_prefix("openat(") {
            if args.contains(&format!("\"{target}\"")) {
                let flags = args.split(", ").nth(2).unwrap_or("").split(')').next().unwrap_or("").to_string();
                s.opens.push(flags);
                if let Ok(fd) = ret.split_whitespace().next().unwrap_or("").parse::<i64>() {
                    if fd >= 0 {
                        fds.insert(fd.to_string());
                    }
                }
            }
        } else if let Some(args) = rest.strip_prefix("close(") {
            let fd = args.split(')').next().unwrap_or("");
            fds.remove(fd);
        } else if rest.starts_with("write(") || rest.starts_with("pwrite64(") {
            let fd = rest.split('(').nth(1).unwrap_or("").split(',').next().unwrap_or("");
            if fds.contains(fd) {
                s.writes += 1;
                if let Ok(n) = ret.split_whitespace().next().unwrap_or("").parse::<i64>() {
                    if n > 0 {
                        s.written += n as u64;
                    }
                }
            }
        } else if let Some(args) = rest.strip_prefix("ftruncate(") {
            let mut it = args.split(|c| c == ',' || c == ')');
            let fd = it.next().unwrap_or("").trim();
            let len = it.next().unwrap_or("").trim();
            if fds.contains(fd) {
                s.truncates.push(len.parse().unwrap_or(u64::MAX));
            }
        } else if (rest.starts_with("unlink") || rest.starts_with("rename")) && rest.contains(&format!("\"{target}\"")) {
            s.unlinks_or_renames += 1;
        }
    }
    s
}

/// run the three modes under strace and check the recorded event log
fn strace_case(ctx: &Ctx, rng: &mut Rng, out: &mut CaseOut, dir: &Path) {
    let cfg = Cfg::sample_sane(rng);
    let text = common::well_formed(ctx, rng, 15).text;
    let Some((formatted, _)) = common::run(out, &cfg, &text) else { return };
    for (label, content) in [("needs-formatting", format!("{text}    \n\n\n")), ("already-formatted", formatted.clone())] {
        for mode in ["files", "stdout", "check"] {
            let f = dir.join("s.pas");
            if std::fs::write(&f, &content).is_err() {
                return;
            }
            let log = dir.join("strace.log");
            let _ = std::fs::remove_file(&log);
            let mut cmd = std::process::Command::new("strace");
            cmd.args(["-f", "-e", "trace=openat,close,write,pwrite64,ftruncate,unlink,unlinkat,rename,renameat,renameat2", "-o"]).arg(&log).arg(&ctx.cli_bin);
            cmd.args(cfg.to_cli_args()).args(["--mode", mode, "s.pas"]).current_dir(dir).env("RAYON_NUM_THREADS", "2");
            cmd.stdout(std::process::Stdio::null()).stderr(std::process::Stdio::null());
            let Ok(st) = cmd.status() else {
                out.count("strace.not_available");
                return;
            };
            let _ = st;
            let Ok(logtext) = std::fs::read_to_string(&log) else {
                out.count("strace.not_available");
                return;
            };
            out.evals += 1;
            out.count("strace.runs");
            let s = parse_strace(&logtext, "s.pas");
            if s.opens.is_empty() {
                out.count("strace.target_not_seen");
                continue;
            }
            let writable_open = s.opens.iter().any(|f| f.contains("O_WRONLY") || f.contains("O_RDWR") || f.contains("O_TRUNC") || f.contains("O_CREAT") || f.contains("O_APPEND"));
            // does formatting change this content? (decided by the library: formatted text is not
            // always a fixpoint, see the known findings of C03)
            let Some((refmt, _)) = common::run(out, &cfg, &content) else { continue };
            let changed = refmt != content;
            match mode {
                "files" => {
                    if s.opens.iter().any(|f| f.contains("O_TRUNC")) {
                        out.violate("C16", "opened-with-truncate", format!("[{}] files mode opened the file with O_TRUNC ({:?}): a failure after this point loses the content", cfg.short(), s.opens), &content, Some(&cfg));
                    }
                    if changed {
                        if s.truncates.len() != 1 || s.truncates[0] != s.written {
                            out.violate("C16", "length-not-set-to-bytes-written", format!("[{}] files mode wrote {} bytes in {} write(s) but set the length with {:?}", cfg.short(), s.written, s.writes, s.truncates), &content, Some(&cfg));
                        }
                    } else if s.writes > 0 || !s.truncates.is_empty() {
                        out.violate("C16", "rewrote-unchanged-file", format!("[{}] {label}: files mode issued {} write(s) / {:?} truncation(s) on an already formatted file", cfg.short(), s.writes, s.truncates), &content, Some(&cfg));
                    }
                }
                _ => {
                    if writable_open || s.writes > 0 || !s.truncates.is_empty() || s.unlinks_or_renames > 0 {
                        out.violate("C16", "write-class-syscall-in-readonly-mode", format!("[{}] {mode} mode on a {label} file: open flags {:?}, {} write(s), truncations {:?}, {} unlink/rename", cfg.short(), s.opens, s.writes, s.truncates, s.unlinks_or_renames), &content, Some(&cfg));
                    }
                }
            }
            out.nontrivial.push(rng::hash_combine(rng::hash_str(&content), rng::hash_str(mode)));
        }
    }
}

impl Prop for C16 {
    fn post(&self, ctx: &Ctx) -> Option<CaseOut> {
        // thorough tier: the same workload with the real binary under valgrind memcheck
        if ctx.tier != Tier::Thorough {
            return None;
        }
        let mut out = CaseOut::default();
        crate::sanit::memcheck_cli(ctx, "C16", &mut out);
        Some(out)
    }
    fn id(&self) -> &'static str {
        "C16"
    }
    fn needs_cli(&self) -> bool {
        true
    }
    fn cases(&self, ctx: &Ctx) -> u64 {
        ctx.tier.pick(640, 8_000)
    }
    fn rule(&self) -> &'static str {
        "real binary: file contents of all sizes (grammar programs, seeds, hostile inputs) in variants whose result is shorter (inflated whitespace), longer (one-line layout), equal (already formatted) and empty x modes {files, stdout, check} x path forms {file, directory, glob, --files-from, stdin} x sampled configurations; reference = stdin->stdout of the same binary with the same options; oracles: bytes after files mode == reference (no stale tail), check exit status == (content equals reference), bytes/mtime/inode unchanged by stdout and check mode and by files mode on formatted content; unreadable (mode 000, binary run as nobody), undecodable and missing files leave everything untouched and make the exit status non-zero. Non-trivial: result length != input length; distinct by content hash + configuration."
    }
    fn floor(&self, tier: Tier) -> u64 {
        tier.pick(300, 5_000)
    }
    fn run_case(&self, ctx: &Ctx, idx: u64) -> CaseOut {
        let mut out = CaseOut::default();
        let mut rng = Rng::derive(ctx.seed, "C16", idx);
        let scratch = Scratch::new(&ctx.work_dir, "c16");
        let dir = scratch.path.as_path();
        let cfg = Cfg::sample_sane(&mut rng);
        if idx % 64 == 5 {
            // ---- many members that must make the exit status non-zero: the status is a yes/no answer
            // however many inputs failed (counts around 256 and 512, where a byte-sized tally wraps)
            let n = *rng.pick(&[255usize, 256, 256, 257, 512]);
            let check_mode = rng.bool();
            for i in 0..n {
                let bytes: &[u8] = if check_mode { b"begin   x:=1;   end." } else { b"begin x := '\xff\xfe'; end." };
                std::fs::write(dir.join(format!("m{i}.pas")), bytes).unwrap();
            }
            let mut a = cfg.to_cli_args();
            if check_mode {
                a.extend(["--mode".to_string(), "check".to_string()]);
            }
            a.push(".".into());
            out.evals += 1;
            out.count(&format!("many_failing.{n}.{}", if check_mode { "check" } else { "files" }));
            let r = cli::run(Invocation { bin: &ctx.cli_bin, args: a.clone(), cwd: dir, stdin: None, env: vec![("RAYON_NUM_THREADS".into(), rng.pick(&[1usize, 4, 16]).to_string())], as_nobody: false });
            if r.ok() {
                out.violate(
                    "C16",
                    "exit-status-zero-despite-failures",
                    format!("{n} {} in one invocation but the exit status is 0 (args {:?})", if check_mode { "files that are not formatted, --mode=check" } else { "undecodable files, files mode" }, a),
                    "",
                    Some(&cfg),
                );
            }
            out.nontrivial.push(rng::hash_str(&format!("many{n}{check_mode}")));
            return out;
        }
        if idx % 8 == 3 {
            // recorded syscall log, checked offline
            strace_case(ctx, &mut rng, &mut out, dir);
            return out;
        }
        if idx % 8 == 7 {
            // ---- failing files: unreadable, undecodable, missing
            let good = dir.join("good.pas");
            let text = common::well_formed(ctx, &mut rng, 10).text;
            std::fs::write(&good, format!("{text}   \n\n\n")).unwrap();
            let bad_utf8 = dir.join("bad.pas");
            let bad_bytes = b"begin\n  x := '\xff\xfe\xfd';\nend.\n   ".to_vec();
            std::fs::write(&bad_utf8, &bad_bytes).unwrap();
            let locked = dir.join("locked.pas");
            let locked_bytes = b"begin   x:=1;   end.".to_vec();
            std::fs::write(&locked, &locked_bytes).unwrap();
            cli::set_mode(&locked, 0o000).unwrap();
            cli::set_mode(&good, 0o666).unwrap();
            cli::set_mode(&bad_utf8, 0o666).unwrap();
            cli::set_mode(dir, 0o777).unwrap();
            for (name, path, bytes) in [("undecodable", &bad_utf8, &bad_bytes), ("unreadable", &locked, &locked_bytes)] {
                cli::age_file(path);
                let before = cli::stat(path);
                out.evals += 1;
                let mut a = cfg.to_cli_args();
                a.push(path.file_name().unwrap().to_string_lossy().to_string());
                let r = cli::run(Invocation { bin: &ctx.cli_bin, args: a, cwd: dir, stdin: None, env: vec![], as_nobody: name == "unreadable" });
                out.count(&format!("failing.{name}"));
                if r.code.is_none() && r.signal.is_none() {
                    out.count("failing_runs_not_started");
                    continue;
                }
                if r.ok() {
                    out.violate("C16", "failure-exit-zero", format!("[{}] {name} file but exit status 0; stderr {:?}", cfg.short(), short(&r.stderr_text(), 160)), name, Some(&cfg));
                }
                cli::set_mode(path, 0o644).ok();
                let now = std::fs::read(path).unwrap_or_default();
                if &now != bytes || cli::stat(path).map(|s| (s.len, s.mtime_ns)) != before.clone().map(|s| (s.len, s.mtime_ns)) {
                    out.violate("C16", "failed-file-touched", format!("[{}] {name} file was modified", cfg.short()), name, Some(&cfg));
                }
                out.nontrivial.push(rng::hash_str(&format!("{name}{idx}")));
            }
            // a failing member next to a good one: good one still formatted, status non-zero
            out.evals += 1;
            let mut a = cfg.to_cli_args();
            a.extend(["good.pas".to_string(), "bad.pas".to_string(), "missing.pas".to_string()]);
            let r = cli::run(Invocation { bin: &ctx.cli_bin, args: a, cwd: dir, stdin: None, env: vec![], as_nobody: false });
            let refr = run_bin(ctx, dir, args_with(&cfg, &[]), Some(format!("{text}   \n\n\n").into_bytes()), false);
            if r.ok() {
                out.violate("C16", "failure-exit-zero", format!("[{}] batch with an undecodable and a missing file exited 0", cfg.short()), "batch", Some(&cfg));
            }
            if refr.ok() && std::fs::read(&good).unwrap_or_default() != refr.stdout {
                out.violate("C16", "files-mode-differs", format!("[{}] good file next to failing ones was not formatted like stdin->stdout", cfg.short()), &text, Some(&cfg));
            }
            if std::fs::read(&bad_utf8).unwrap_or_default() != bad_bytes {
                out.violate("C16", "failed-file-touched", "undecodable file modified in a batch".into(), "batch", Some(&cfg));
            }
            return out;
        }
        let (mut text, kind) = if rng.chance(3, 4) { (common::well_formed(ctx, &mut rng, 25).text, "well-formed") } else { common::any_input(ctx, &mut rng) };
        let log_args: Vec<String> = match rng.below(6) {
            0 => vec!["-v".into()],
            1 => vec!["-vv".into()],
            2 => vec!["--log-level".into(), "DEBUG".into()],
            3 => vec!["--log-level".into(), "ERROR".into()],
            _ => vec![],
        };
        if !log_args.is_empty() {
            out.count(&format!("log_flags.{}", log_args.join("=")));
        }
        LOG_ARGS.with(|e| *e.borrow_mut() = log_args);
        // one third of the cases: a legacy encoding configured with -C encoding=..., and content that
        // has non-ASCII characters of that encoding
        ENC_ARGS.with(|e| e.borrow_mut().clear());
        if rng.chance(1, 3) {
            let (label, sample) = *rng.pick(&[("windows-1252", "äöüß€"), ("windows-1251", "Ждйщ"), ("gbk", "漢字语"), ("shift_jis", "あいカ漢"), ("iso-8859-2", "łčřő"), ("euc-kr", "한글")]);
            if text.is_ascii() || encoding_rs::Encoding::for_label(label.as_bytes()).is_some_and(|e| !e.encode(&text).2) {
                text = format!("// {sample}   \n{text}\nconst   S{}  =  '{sample}' ;\n", rng.below(100));
                ENC_ARGS.with(|e| *e.borrow_mut() = vec!["-C".to_string(), format!("encoding={label}")]);
                out.count(&format!("encoding.{label}"));
            }
        }
        // the binary treats its input as UTF-8; NUL bytes etc. are fine
        out.count(&format!("gen.{kind}"));
        // formatted text via the library (the variants are derived from it)
        let Some((formatted, _)) = common::run(&mut out, &cfg, &text) else { return out };
        for (label, content) in variants(&mut rng, &formatted, &text) {
            let fails = check_content(ctx, &mut out, dir, &cfg, label, &content, &mut rng);
            for f in fails {
                out.violate("C16", f.class, format!("[{}] {}", cfg.short(), f.detail), &content, Some(&cfg));
            }
            out.count(&format!("variant.{label}"));
            if content.len() != formatted.len() {
                out.nontrivial.push(rng::hash_combine(rng::hash_str(&content), rng::hash_str(&cfg.short())));
            }
        }
        if idx < 2 {
            out.sample = Some(json!({"config": cfg.to_cli_args().join(" "), "content": short(&text, 200), "stdin->stdout result": short(&formatted, 200)}));
        }
        out
    }
}
