//! C09 — configured line ending everywhere; input endings irrelevant.

use super::common;
use super::wf;
use crate::cfg::Cfg;
use crate::oracle;
use crate::prop::{excerpt, short, CaseOut, Ctx, Prop, Tier};
use crate::refscan::{self, RK};
use crate::rng::{self, Rng};
use serde_json::json;

pub struct C09;

/// clause (a): every emitted break is the configured one. Returns description of first offence.
fn check_emitted(input: &str, output: &str, crlf: bool, fmt_mlstr: bool) -> Option<(usize, String)> {
    let a = refscan::scan(input);
    let b = refscan::scan(output);
    let mask = oracle::verbatim_mask(output, &b);
    let bad_break = |s: &str| -> Option<usize> {
        let by = s.as_bytes();
        for (i, &c) in by.iter().enumerate() {
            if crlf {
                if c == b'\n' && (i == 0 || by[i - 1] != b'\r') {
                    return Some(i);
                }
                if c == b'\r' && by.get(i + 1) != Some(&b'\n') {
                    return Some(i);
                }
            } else if c == b'\r' {
                return Some(i);
            }
        }
        None
    };
    let mut pos = 0;
    for (i, t) in b.iter().enumerate() {
        let gap = &output[pos..t.start];
        pos = t.end;
        if mask[i] {
            continue;
        }
        if let Some(o) = bad_break(gap) {
            return Some((t.start - gap.len() + o, format!("gap before {:?} contains a line break that is not the configured one: {:?}", short(t.text(output), 30), gap)));
        }
        // re-indented multi-line strings: interior must use the configured terminator
        if t.kind == RK::MlStr && fmt_mlstr {
            let same_as_input = a.get(i).is_some_and(|x| x.kind == RK::MlStr && x.text(input) == t.text(output));
            if !same_as_input {
                if let Some(o) = bad_break(t.text(output)) {
                    return Some((t.start + o, format!("re-indented multi-line string contains a line break that is not the configured one: {:?}", short(t.text(output), 80))));
                }
            }
        }
    }
    let tail = &output[pos..];
    if !b.last().is_some_and(|_| mask[b.len() - 1]) {
        if let Some(o) = bad_break(tail) {
            return Some((pos + o, format!("end of file contains a line break that is not the configured one: {:?}", tail)));
        }
    }
    None
}

/// does the input contain a line-spanning token that is kept verbatim?
fn has_verbatim_multiline(input: &str, fmt_mlstr: bool) -> bool {
    let toks = refscan::scan(input);
    let mask = oracle::verbatim_mask(input, &toks);
    toks.iter().enumerate().any(|(i, t)| {
        let txt = t.text(input);
        let multi = txt.contains('\n') || txt.contains('\r');
        mask[i] || t.in_asm || (multi && (t.kind != RK::MlStr || !fmt_mlstr || wf::mlstr_value(txt).is_none())) || t.unterminated || matches!(t.kind, RK::UntermStr)
    })
}

impl Prop for C09 {
    fn id(&self) -> &'static str {
        "C09"
    }
    fn cases(&self, ctx: &Ctx) -> u64 {
        ctx.tier.pick(12_000, 120_000)
    }
    fn rule(&self) -> &'static str {
        "all generators, inputs rendered with LF, CRLF and mixtures (lone CR only inside literals/comments of hostile inputs) x sampled configurations under both line_ending values; oracles: (a) every line break in a gap between reference tokens of the output, in the file tail and inside re-indented multi-line strings is the configured terminator (verbatim regions, asm and untouched multi-line tokens exempt); (b) F_crlf(x) equals F_lf(x) after substituting terminators; (c) F(x with CRLF) == F(x with LF) when x has no line-spanning verbatim token. Non-trivial: output has >= 2 line breaks and the input has a comment or literal; distinct by input hash + configuration."
    }
    fn floor(&self, tier: Tier) -> u64 {
        tier.pick(5_000, 80_000)
    }
    fn run_case(&self, ctx: &Ctx, idx: u64) -> CaseOut {
        let mut out = CaseOut::default();
        let mut rng = Rng::derive(ctx.seed, "C09", idx);
        for k in 0..16 {
            let (mut input, kind) = if rng.chance(3, 5) {
                let w = common::well_formed(ctx, &mut rng, 25);
                (w.text, if w.prog.is_some() { "gram" } else { "seed" })
            } else {
                common::any_input(ctx, &mut rng)
            };
            if !matches!(kind, "gram" | "seed" | "well-formed") && refscan::scan(&input).iter().any(|t| t.in_asm) {
                // asm bodies in broken code (an `end` hidden in another conditional branch ...): which
                // tokens are verbatim asm text cannot be told from outside
                out.count("skipped_asm_in_invalid_input");
                continue;
            }
            // render the input's endings
            let ending_mode = rng.below(4);
            match ending_mode {
                0 => input = input.replace("\r\n", "\n"),
                1 => input = input.replace("\r\n", "\n").replace('\n', "\r\n"),
                2 => {
                    // mixture
                    let mut s = String::new();
                    for part in input.replace("\r\n", "\n").split_inclusive('\n') {
                        if part.ends_with('\n') && rng.bool() {
                            s.push_str(&part[..part.len() - 1]);
                            s.push_str("\r\n");
                        } else {
                            s.push_str(part);
                        }
                    }
                    input = s;
                }
                _ => {}
            }
            out.count(&format!("gen.{kind}"));
            out.count(&format!("input_endings.{}", ["lf", "crlf", "mixed", "as-generated"][ending_mode]));
            let base = Cfg::sample(&mut rng);
            let lf = Cfg { crlf: false, ..base.clone() };
            let cr = Cfg { crlf: true, ..base.clone() };
            // already formatted text as input (its literals sit at their final indentation, so nothing but
            // the terminators is left to change), for inputs with multi-line literals
            if input.contains("'''") && rng.chance(1, 2) {
                if let Some((f, _)) = common::run(&mut out, &lf, &input) {
                    input = f;
                    out.count("inputs_already_formatted_under_lf");
                }
            }
            let Some((o_lf, obs_lf)) = common::run(&mut out, &lf, &input) else { continue };
            let Some((o_cr, obs_cr)) = common::run(&mut out, &cr, &input) else { continue };
            let fallback = obs_lf.has_fallback() || obs_cr.has_fallback();
            // (a)
            for (cfg, o) in [(&lf, &o_lf), (&cr, &o_cr)] {
                if let Some((at, d)) = check_emitted(&input, o, cfg.crlf, cfg.format_multiline_strings) {
                    let class = if fallback {
                        "wrap-fallback"
                    } else if wf::lone_cr_after_line_bound_token(&input) {
                        "lone-cr-line-break"
                    } else {
                        "wrong-terminator"
                    };
                    out.violate("C09", class, format!("{kind} [{}] {d} (…{:?}…)", cfg.short(), excerpt(o, at, 30)), &input, Some(cfg));
                }
            }
            // (b) substitution: compare with CRLF folded to LF on both sides
            // (verbatim line-spanning tokens that themselves contain CRs cannot be compared by folding)
            let verbatim_cr = input.contains('\r') && has_verbatim_multiline(&input, base.format_multiline_strings);
            if verbatim_cr {
                out.count("lf_crlf_comparison_skipped_verbatim_cr");
            } else if o_lf.replace("\r\n", "\n") != o_cr.replace("\r\n", "\n") {
                let class = if fallback {
                    "wrap-fallback"
                } else if wf::mlstr_starts_logical_line(&input) {
                    "mlstr-first-on-logical-line"
                } else if (obs_lf.reflow_cache_hit() || obs_cr.reflow_cache_hit()) && input.contains("'''") {
                    // only one of the two executions re-indents a literal (its terminators change) and then
                    // re-wraps with stale child-line solutions
                    "reflow-child-cache"
                } else {
                    "lf-crlf-results-differ"
                };
                out.violate("C09", class, format!("{kind} [{}] results under lf and crlf differ beyond the terminators", base.short()), &input, Some(&base));
            }
            // (b) exactly: when nothing in the input is kept verbatim across lines, the crlf result is the lf
            // result with every terminator substituted - also inside multi-line literals that did not
            // have to be re-indented
            let lone_cr = input.replace("\r\n", "").contains('\r');
            if !has_verbatim_multiline(&input, base.format_multiline_strings) && !lone_cr && !o_lf.contains('\r') && !fallback {
                out.count("lf_crlf_exact_substitution_compared");
                if o_lf.replace('\n', "\r\n") != o_cr {
                    let class = if wf::mlstr_starts_logical_line(&input) {
                        "mlstr-first-on-logical-line"
                    } else if (obs_lf.reflow_cache_hit() || obs_cr.reflow_cache_hit()) && input.contains("'''") {
                        "reflow-child-cache"
                    } else {
                        "lf-crlf-results-differ"
                    };
                    let at = o_lf.replace('\n', "\r\n").bytes().zip(o_cr.bytes()).position(|(x, y)| x != y).unwrap_or(0);
                    out.violate("C09", class, format!("{kind} [{}] the crlf result is not the lf result with each terminator substituted (first difference at byte {at}: …{:?}…)", base.short(), excerpt(&o_cr, at, 30)), &input, Some(&cr));
                }
            }
            // (c) input endings irrelevant (under either configured ending)
            if !has_verbatim_multiline(&input, base.format_multiline_strings) && !lone_cr {
                let x_lf = input.replace("\r\n", "\n");
                let x_cr = x_lf.replace('\n', "\r\n");
                let lf = if rng.bool() { lf.clone() } else { cr.clone() };
                if let (Some((a, oa)), Some((b, ob))) = (common::run(&mut out, &lf, &x_lf), common::run(&mut out, &lf, &x_cr)) {
                    out.count("input_ending_pairs_compared");
                    if a != b {
                        let fb = oa.has_fallback() || ob.has_fallback();
                        let class = if fb {
                            "wrap-fallback"
                        } else if wf::mlstr_starts_logical_line(&x_lf) {
                            "mlstr-first-on-logical-line"
                        } else if (oa.reflow_cache_hit() || ob.reflow_cache_hit()) && x_lf.contains("'''") {
                            "reflow-child-cache"
                        } else {
                            "input-endings-matter"
                        };
                        out.violate("C09", class, format!("{kind} [{}] F(x with LF) != F(x with CRLF)", lf.short()), &x_cr, Some(&lf));
                    }
                }
            } else {
                out.count("input_ending_pairs_skipped_verbatim_multiline");
            }
            let toks = refscan::scan(&input);
            if o_lf.matches('\n').count() >= 2 && toks.iter().any(|t| matches!(t.kind, RK::LineComment | RK::BlockComment | RK::Str | RK::MlStr)) {
                out.nontrivial.push(rng::hash_combine(rng::hash_str(&input), rng::hash_str(&base.short())));
            }
            if out.sample.is_none() && idx < 32 {
                out.sample = Some(json!({"generator": kind, "config": base.short(), "input": short(&input, 200), "crlf output": short(&o_cr, 200)}));
            }
        }
        out
    }
}
