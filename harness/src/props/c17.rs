//! C17 — encoding and BOM preserved.

use super::common;
use crate::cfg::Cfg;
use crate::cli::{self, Invocation, Scratch};
use crate::prop::{short, CaseOut, Ctx, Prop, Tier};
use crate::rng::{self, Rng};
use encoding_rs::Encoding;
use serde_json::json;

pub struct C17;

const LABELS: &[&str] = &[
    "utf-8", "windows-1252", "windows-1250", "windows-1251", "iso-8859-2", "iso-8859-5", "iso-8859-7", "iso-8859-15", "ibm866", "koi8-r", "koi8-u", "shift_jis", "euc-jp", "gbk", "gb18030", "big5", "euc-kr", "windows-1253", "windows-1254", "windows-1255", "windows-1256", "windows-1257", "windows-1258", "windows-874", "macintosh", "iso-2022-jp", "utf-16le", "utf-16be", "x-mac-cyrillic", "iso-8859-8", "iso-8859-6",
];

const UTF8_BOM: &[u8] = &[0xEF, 0xBB, 0xBF];
const UTF16LE_BOM: &[u8] = &[0xFF, 0xFE];
const UTF16BE_BOM: &[u8] = &[0xFE, 0xFF];

fn encodable_chars(enc: &'static Encoding, rng: &mut Rng) -> Vec<char> {
    // candidates from several scripts; keep those the encoding can represent without replacement
    const CANDS: &str = "éèüößñçÅøŁžčřąęěšťůőűćđЖдйщэюяЂєїґαβγδωάέήΩאבגדשتثجحخกขฃคฅあいうえおカキクケコ漢字語文日本中国國한글조선€‰™©®±÷×¿¡«»„“”–—•…ÿÆæŒœŠšŸƒˆ˜";
    let mut v = vec![];
    for c in CANDS.chars() {
        let s = c.to_string();
        let (_, _, bad) = enc.encode(&s);
        if !bad {
            v.push(c);
        }
    }
    rng.shuffle(&mut v);
    v.truncate(12);
    v
}

/// a small valid program with non-ASCII identifiers, strings and comments, badly spaced
fn make_text(rng: &mut Rng, chars: &[char]) -> String {
    let word = |rng: &mut Rng, n: usize| -> String {
        let mut s = String::new();
        for _ in 0..n {
            if chars.is_empty() {
                s.push('x');
            } else {
                s.push(*rng.pick(chars));
            }
        }
        s
    };
    let (n1, n2, n3) = (rng.range(1, 4), rng.range(0, 6), rng.range(1, 5));
    let id = format!("V{}", word(rng, n1));
    let st = word(rng, n2);
    let cm = word(rng, n3);
    let nl = if rng.bool() { "\r\n" } else { "\n" };
    format!("procedure   Foo ;{nl}BEGIN //{cm}  {nl}   {id}:='{st}'  +  '{st}' ;{nl}{nl}{nl}  if   {id}   =  '' then  Bar( {id} ) ; {{ {cm} }}{nl}end;")
}

fn encode(enc: &'static Encoding, text: &str) -> Option<Vec<u8>> {
    if enc == encoding_rs::UTF_16LE {
        return Some(text.encode_utf16().flat_map(|u| u.to_le_bytes()).collect());
    }
    if enc == encoding_rs::UTF_16BE {
        return Some(text.encode_utf16().flat_map(|u| u.to_be_bytes()).collect());
    }
    let (b, _, bad) = enc.encode(text);
    if bad { None } else { Some(b.into_owned()) }
}

impl Prop for C17 {
    fn post(&self, ctx: &Ctx) -> Option<CaseOut> {
        // thorough tier: the same workload with the real binary under valgrind memcheck
        if ctx.tier != Tier::Thorough {
            return None;
        }
        let mut out = CaseOut::default();
        crate::sanit::memcheck_cli(ctx, "C17", &mut out);
        Some(out)
    }
    fn id(&self) -> &'static str {
        "C17"
    }
    fn needs_cli(&self) -> bool {
        true
    }
    fn cases(&self, ctx: &Ctx) -> u64 {
        ctx.tier.pick(5000, 30_000)
    }
    fn rule(&self) -> &'static str {
        "real binary on byte files and piped stdin/stdout: texts with non-ASCII identifiers, strings and comments drawn from what each encoding can represent (plus astral characters / surrogate pairs for the Unicode encodings) x 25 configured encodings (single-byte code pages, CJK multi-byte, UTF-8) x {no BOM, UTF-8 BOM, UTF-16LE BOM, UTF-16BE BOM} incl. BOM != configured encoding x {file, stdin} x {original text, the formatted result fed back}; reference formatting = library call on the decoded text; oracles: bytes written == BOM + encode(F(decode(bytes))); BOM kept and deciding; malformed input (invalid sequences, odd-length UTF-16, lone surrogates) rejected with non-zero status and the file untouched. Non-trivial: text has a non-ASCII character; distinct by (bytes, encoding, BOM)."
    }
    fn floor(&self, tier: Tier) -> u64 {
        tier.pick(300, 5_000)
    }
    fn assumptions(&self) -> Vec<String> {
        vec!["encoding_rs is trusted as codec for the legacy encodings (what is monitored is BOM sniffing, buffer handling, the hand-written UTF-16 encoders and the error paths)".into()]
    }
    fn run_case(&self, ctx: &Ctx, idx: u64) -> CaseOut {
        let mut out = CaseOut::default();
        let mut rng = Rng::derive(ctx.seed, "C17", idx);
        let scratch = Scratch::new(&ctx.work_dir, "c17");
        let dir = scratch.path.as_path();
        let cfg = Cfg::sample_sane(&mut rng);
        if idx % 16 == 5 {
            // ---- byte forms the decoder accepts but the encoder never produces: re-encoding changes the
            // on-disk length independently of the text length
            let (label, bytes): (&str, &[u8]) = *rng.pick(&[
                ("gbk", &b"BEGIN\n  X   :=   '\xa2\xe3' ;\nEND.\n"[..]),
                ("gb18030", &b"BEGIN\n  X   :=   '\xa2\xe3\xa2\xe3' ;\nEND.\n"[..]),
                ("iso-2022-jp", &b"BEGIN\x1b(B\n  X   :=   1 ;\x1b(B\nEND.\n"[..]),
                ("iso-2022-jp", &b"BEGIN\n  X := '\x1b$B$\"\x1b(B\x1b$B$$\x1b(B';\nEND.\n"[..]),
                ("gbk", &b"BEGIN X:='\xa2\xe3';END."[..]),
            ]);
            let enc = Encoding::for_label(label.as_bytes()).expect("label");
            let (text, _, had_err) = enc.decode(bytes);
            if had_err {
                out.count("noncanonical_form_not_accepted_by_codec");
                return out;
            }
            let text = text.to_string();
            let Some((formatted, _)) = common::run(&mut out, &cfg, &text) else { return out };
            let Some(expected) = encode(enc, &formatted) else { return out };
            let mut args = cfg.to_cli_args();
            args.push("-C".into());
            args.push(format!("encoding={label}"));
            let f = dir.join("n.pas");
            std::fs::write(&f, bytes).unwrap();
            let mut a = args.clone();
            a.push("n.pas".into());
            out.evals += 1;
            out.count(&format!("noncanonical_input.{label}"));
            let r = cli::run(Invocation { bin: &ctx.cli_bin, args: a, cwd: dir, stdin: None, env: vec![], as_nobody: false });
            let got = std::fs::read(&f).unwrap_or_default();
            if !r.ok() {
                out.violate("C17", "valid-input-rejected", format!("[{label}] non-canonical but valid input rejected: exit {:?}", r.code), &text, Some(&cfg));
            } else if got != expected {
                out.violate("C17", "bytes-differ", format!("[{label}] input with a byte form the encoder never produces ({} bytes): file has {} bytes, encode(F(decode(input))) has {} bytes; tail {:02x?}", bytes.len(), got.len(), expected.len(), &got[got.len().saturating_sub(6)..]), &text, Some(&cfg));
            }
            out.nontrivial.push(rng::hash_combine(rng::hash_bytes(bytes), rng::hash_str(&cfg.short())));
            return out;
        }
        let label = LABELS[(idx as usize) % LABELS.len()];
        let configured = Encoding::for_label(label.as_bytes()).expect("label");
        // which BOM (decides the effective encoding)
        let bom_kind = rng.below(8);
        let (bom, effective): (&[u8], &'static Encoding) = match bom_kind {
            0 => (UTF8_BOM, encoding_rs::UTF_8),
            1 => (UTF16LE_BOM, encoding_rs::UTF_16LE),
            2 => (UTF16BE_BOM, encoding_rs::UTF_16BE),
            _ => (&[], configured),
        };
        out.count(&format!("bom.{}", ["utf8", "utf16le", "utf16be", "none", "none", "none", "none", "none"][bom_kind]));
        out.count(&format!("encoding.{}", effective.name()));
        let mut chars = if effective == encoding_rs::UTF_8 || effective == encoding_rs::UTF_16LE || effective == encoding_rs::UTF_16BE {
            let mut v: Vec<char> = "éЖ漢한😀𝔘𐍈ü\u{3000}".chars().collect();
            rng.shuffle(&mut v);
            v
        } else {
            encodable_chars(effective, &mut rng)
        };
        if rng.chance(1, 10) {
            chars.clear();
        }
        let text = if rng.chance(1, 4) { common::well_formed(ctx, &mut rng, 8).text } else { make_text(&mut rng, &chars) };
        let Some(body) = encode(effective, &text) else {
            out.count("text_not_representable_skipped");
            return out;
        };
        // representable texts must round-trip through the codec
        let with_bom = [bom, &body[..]].concat();
        let (decoded, _, had_err) = effective.decode(&with_bom);
        if had_err || decoded != text {
            out.count("codec_roundtrip_skipped");
            return out;
        }
        let mut bytes = bom.to_vec();
        bytes.extend_from_slice(&body);
        // reference
        let Some((formatted, _)) = common::run(&mut out, &cfg, &text) else { return out };
        let expected = encode(effective, &formatted).map(|b| [bom, &b[..]].concat());
        let mut args = cfg.to_cli_args();
        args.push("-C".into());
        args.push(format!("encoding={label}"));
        let malformed = idx % 9 == 8;
        if malformed {
            // ---- malformed input must be rejected and left alone
            let mut bad = bytes.clone();
            if effective == encoding_rs::UTF_16LE || effective == encoding_rs::UTF_16BE {
                match rng.below(2) {
                    0 => bad.push(0x41), // odd length
                    _ => bad.extend_from_slice(if effective == encoding_rs::UTF_16LE { &[0x00, 0xD8, 0x41, 0x00] } else { &[0xD8, 0x00, 0x00, 0x41] }), // lone surrogate
                }
            } else if effective == encoding_rs::UTF_8 {
                bad.extend_from_slice(*rng.pick(&[&[0xFFu8, 0x41][..], &[0xC3][..], &[0xE2, 0x82][..], &[0xED, 0xA0, 0x80][..]]));
            } else if effective.is_single_byte() {
                // find an undefined byte in the code page, if any
                let mut found = None;
                for b in 0x80u8..=0xFF {
                    let (_, _, e) = effective.decode(&[b]);
                    if e {
                        found = Some(b);
                        break;
                    }
                }
                match found {
                    Some(b) => bad.push(b),
                    None => {
                        out.count("no_malformed_form_for_encoding");
                        return out;
                    }
                }
            } else {
                bad.extend_from_slice(&[0x81]); // truncated multi-byte lead
                let (_, _, e) = effective.decode(&bad);
                if !e {
                    out.count("no_malformed_form_for_encoding");
                    return out;
                }
            }
            let f = dir.join("m.pas");
            std::fs::write(&f, &bad).unwrap();
            cli::age_file(&f);
            let before = cli::stat(&f);
            let mut a = args.clone();
            a.push("m.pas".into());
            out.evals += 1;
            let r = cli::run(Invocation { bin: &ctx.cli_bin, args: a, cwd: dir, stdin: None, env: vec![], as_nobody: false });
            out.count("malformed_inputs");
            if r.ok() {
                out.violate("C17", "malformed-accepted", format!("[{label}, effective {}] malformed input accepted (exit 0)", effective.name()), &text, Some(&cfg));
            }
            if std::fs::read(&f).unwrap_or_default() != bad || cli::stat(&f) != before {
                out.violate("C17", "malformed-rewritten", format!("[{label}, effective {}] malformed input file was modified", effective.name()), &text, Some(&cfg));
            }
            // the same through stdin
            out.evals += 1;
            let r = cli::run(Invocation { bin: &ctx.cli_bin, args: args.clone(), cwd: dir, stdin: Some(bad.clone()), env: vec![], as_nobody: false });
            if r.ok() {
                out.violate("C17", "malformed-accepted", format!("[{label}, effective {}] malformed stdin accepted (exit 0)", effective.name()), &text, Some(&cfg));
            }
            out.nontrivial.push(rng::hash_bytes(&bad));
            return out;
        }
        let Some(expected) = expected else {
            out.count("result_not_representable_skipped");
            return out;
        };
        // ---- file path
        let f = dir.join("u.pas");
        std::fs::write(&f, &bytes).unwrap();
        let mut a = args.clone();
        a.push("u.pas".into());
        out.evals += 1;
        let r = cli::run(Invocation { bin: &ctx.cli_bin, args: a, cwd: dir, stdin: None, env: vec![], as_nobody: false });
        let got = std::fs::read(&f).unwrap_or_default();
        if !r.ok() {
            out.violate("C17", "valid-input-rejected", format!("[{label}, effective {}, bom {}] exit {:?}: {}", effective.name(), bom.len(), r.code, short(&r.stderr_text(), 200)), &text, Some(&cfg));
        } else if got != expected {
            let d = got.iter().zip(expected.iter()).position(|(a, b)| a != b).unwrap_or(got.len().min(expected.len()));
            out.violate(
                "C17",
                "bytes-differ",
                format!("[{label}, effective {}, bom {} bytes] file bytes != BOM + encode(F(decode(input))): lengths {} vs {}, first difference at byte {d}: got {:02x?} expected {:02x?}", effective.name(), bom.len(), got.len(), expected.len(), &got[d.min(got.len())..(d + 6).min(got.len())], &expected[d.min(expected.len())..(d + 6).min(expected.len())]),
                &text,
                Some(&cfg),
            );
        }
        // ---- stdin -> stdout (pipe, so the original encoding is kept)
        out.evals += 1;
        let r = cli::run(Invocation { bin: &ctx.cli_bin, args: args.clone(), cwd: dir, stdin: Some(bytes.clone()), env: vec![], as_nobody: false });
        if !r.ok() {
            out.violate("C17", "valid-input-rejected", format!("[{label}, effective {}] stdin: exit {:?}: {}", effective.name(), r.code, short(&r.stderr_text(), 200)), &text, Some(&cfg));
        } else if r.stdout != expected {
            out.violate("C17", "bytes-differ", format!("[{label}, effective {}, bom {} bytes] stdout bytes != BOM + encode(F(decode(stdin))): {} vs {} bytes", effective.name(), bom.len(), r.stdout.len(), expected.len()), &text, Some(&cfg));
        }
        // ---- the result fed back: already-formatted content is where "nothing to do" shortcuts live
        if let Some((formatted2, _)) = common::run(&mut out, &cfg, &formatted) {
            if let Some(expected2) = encode(effective, &formatted2).map(|b| [bom, &b[..]].concat()) {
                out.count("already_formatted_fed_back");
                out.evals += 1;
                let r = cli::run(Invocation { bin: &ctx.cli_bin, args: args.clone(), cwd: dir, stdin: Some(expected.clone()), env: vec![], as_nobody: false });
                if !r.ok() {
                    out.violate("C17", "valid-input-rejected", format!("[{label}, effective {}] already-formatted stdin: exit {:?}: {}", effective.name(), r.code, short(&r.stderr_text(), 200)), &formatted, Some(&cfg));
                } else if r.stdout != expected2 {
                    out.violate("C17", "bytes-differ", format!("[{label}, effective {}, bom {} bytes] already-formatted stdin: stdout bytes != BOM + encode(F(decode(stdin))): {} vs {} bytes", effective.name(), bom.len(), r.stdout.len(), expected2.len()), &formatted, Some(&cfg));
                }
                let f2 = dir.join("u2.pas");
                std::fs::write(&f2, &expected).unwrap();
                let mut a = args.clone();
                a.push("u2.pas".into());
                out.evals += 1;
                let r = cli::run(Invocation { bin: &ctx.cli_bin, args: a, cwd: dir, stdin: None, env: vec![], as_nobody: false });
                let got = std::fs::read(&f2).unwrap_or_default();
                if !r.ok() {
                    out.violate("C17", "valid-input-rejected", format!("[{label}, effective {}] already-formatted file: exit {:?}: {}", effective.name(), r.code, short(&r.stderr_text(), 200)), &formatted, Some(&cfg));
                } else if got != expected2 {
                    out.violate("C17", "bytes-differ", format!("[{label}, effective {}, bom {} bytes] already-formatted file: bytes != BOM + encode(F(decode(input))): {} vs {} bytes", effective.name(), bom.len(), got.len(), expected2.len()), &formatted, Some(&cfg));
                }
            }
        }
        if !text.is_ascii() {
            out.nontrivial.push(rng::hash_combine(rng::hash_bytes(&bytes), rng::hash_str(label)));
        }
        if idx < 3 {
            out.sample = Some(json!({"configured encoding": label, "effective": effective.name(), "bom bytes": bom.len(), "text": short(&text, 160), "input bytes": bytes.len(), "output bytes": expected.len()}));
        }
        out
    }
}
