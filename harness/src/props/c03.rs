//! C03 — idempotence on well-formed code.

use super::common;
use crate::cfg::Cfg;
use crate::oracle;
use crate::prop::{short, CaseOut, Ctx, Prop};
use crate::rng::{self, Rng};
use serde_json::json;

pub struct C03;

const BATCH: u64 = 20;

/// take formatted text and mis-indent one of its multi-line literals (all interior lines and the
/// closing line get the same extra prefix, so the literal stays conforming)
fn perturb_one_literal(f1: &str, rng: &mut Rng) -> Option<String> {
    use crate::refscan::{self, RK};
    let toks: Vec<_> = refscan::scan(f1).into_iter().filter(|t| t.kind == RK::MlStr).collect();
    if toks.is_empty() {
        return None;
    }
    let t = toks[rng.below(toks.len())];
    let lit = t.text(f1);
    let extra = *rng.pick(&["  ", "    ", "\t", "      "]);
    let mut new_lit = String::new();
    let mut first = true;
    for part in lit.split_inclusive('\n') {
        if !first {
            new_lit.push_str(extra);
        }
        first = false;
        new_lit.push_str(part);
    }
    Some(format!("{}{}{}", &f1[..t.start], new_lit, &f1[t.end..]))
}

fn first_diff_line(a: &str, b: &str) -> String {
    let la = oracle::split_breaks(a);
    let lb = oracle::split_breaks(b);
    for i in 0..la.len().max(lb.len()) {
        let x = la.get(i).copied().unwrap_or("<eof>");
        let y = lb.get(i).copied().unwrap_or("<eof>");
        if x != y {
            return format!("line {}: F(x) has {:?}, F(F(x)) has {:?}", i + 1, short(x, 120), short(y, 120));
        }
    }
    "outputs differ only in line terminators".into()
}

/// the same claim through the real binary: `pasfmt f` then `pasfmt --mode=check f` accepts, and a
/// second in-place run rewrites nothing (bytes and mtime unchanged)
fn cli_case(ctx: &Ctx, rng: &mut Rng, out: &mut CaseOut) {
    use crate::cli::{self, Invocation, Scratch};
    let scratch = Scratch::new(&ctx.work_dir, "c03");
    for _ in 0..4 {
        let w = common::well_formed(ctx, rng, 20);
        let cfg = Cfg::sample_sane(rng);
        let f = scratch.path.join(format!("f{}.pas", rng.below(10_000)));
        if std::fs::write(&f, &w.text).is_err() {
            continue;
        }
        let name = f.file_name().unwrap().to_string_lossy().to_string();
        let run = |extra: &[&str]| {
            let mut a = cfg.to_cli_args();
            a.extend(extra.iter().map(|s| s.to_string()));
            a.push(name.clone());
            cli::run(Invocation { bin: &ctx.cli_bin, args: a, cwd: &scratch.path, stdin: None, env: vec![], as_nobody: false })
        };
        out.evals += 3;
        out.count("cli.files_formatted_in_place");
        let r1 = run(&[]);
        if !r1.ok() {
            out.count("cli.first_run_failed");
            continue;
        }
        // fallback lines are a known finding of the library monitor; recognise them through the log
        let fallback = r1.stderr_text().contains("No solution found") || r1.stderr_text().contains("Iteration limit reached");
        let after1 = std::fs::read(&f).unwrap_or_default();
        cli::age_file(&f);
        let st = cli::stat(&f);
        let rc = run(&["--mode", "check"]);
        let r2 = run(&[]);
        let after2 = std::fs::read(&f).unwrap_or_default();
        let text1 = String::from_utf8_lossy(&after1).to_string();
        // signature of the known finding reflow-child-cache: the hook event, observed on the same
        // input and configuration through the library (only computed when something is reported)
        let suspicious = !rc.ok() || !r2.ok() || after2 != after1;
        let cache_hit = suspicious && text1.contains("'''") && {
            let o1 = crate::exec::format_simple(&cfg, &w.text);
            let o2 = o1.out.as_ref().ok().map(|f1| crate::exec::format_simple(&cfg, f1));
            o1.reflow_cache_hit() || o2.is_some_and(|o| o.reflow_cache_hit())
        };
        let class = |c: &'static str| -> &'static str {
            if fallback {
                "wrap-fallback"
            } else if cache_hit {
                "reflow-child-cache"
            } else {
                c
            }
        };
        if !rc.ok() {
            out.violate("C03", class("cli-check-rejects-own-output"), format!("{} [{}] `pasfmt --mode=check` rejects the file pasfmt has just written: {}", w.name, cfg.short(), short(&rc.stderr_text(), 160)), &w.text, Some(&cfg));
        }
        if !r2.ok() || after2 != after1 {
            out.violate("C03", class("cli-second-run-rewrites"), format!("{} [{}] a second in-place run changed the file ({} -> {} bytes)", w.name, cfg.short(), after1.len(), after2.len()), &w.text, Some(&cfg));
        } else if cli::stat(&f) != st {
            out.violate("C03", class("cli-second-run-rewrites"), format!("{} [{}] a second in-place run rewrote identical bytes (mtime/inode changed)", w.name, cfg.short()), &w.text, Some(&cfg));
        }
        if after1 != w.text.as_bytes() {
            out.nontrivial.push(rng::hash_combine(rng::hash_bytes(&after1), rng::hash_str(&cfg.short())));
        }
    }
}

impl Prop for C03 {
    fn id(&self) -> &'static str {
        "C03"
    }
    fn cases(&self, ctx: &Ctx) -> u64 {
        ctx.tier.pick(8000, 100_000)
    }
    fn rule(&self) -> &'static str {
        "well-formed inputs (data-test seeds incl. their expected outputs, grammar programs in decorated layouts) x sampled configurations, plus widths chosen adversarially around the widest line of F(x) (max, max-1, max+1); oracle: F(F(x)) == F(x) and F(F(F(x))) == F(F(x)) byte for byte. Non-trivial: F(x) != x and F(x) has >= 3 lines; distinct by hash of (F(x), configuration)."
    }
    fn needs_cli(&self) -> bool {
        true
    }
    fn run_case(&self, ctx: &Ctx, idx: u64) -> CaseOut {
        let mut out = CaseOut::default();
        let mut rng = Rng::derive(ctx.seed, "C03", idx);
        if idx % 25 == 24 && ctx.cli_bin.exists() {
            cli_case(ctx, &mut rng, &mut out);
            return out;
        }
        for k in 0..BATCH {
            let mut w = common::well_formed(ctx, &mut rng, 30);
            let mut cfg = Cfg::sample_sane(&mut rng);
            if rng.chance(1, 8) {
                w = common::WellFormed { text: common::mls_carrier(&mut rng), name: "mls-carrier".into(), prog: None, layout: None, seed_width: None };
                // carriers may hold literals that violate the indentation rule; they are still valid programs
            }
            if let Some(sw) = w.seed_width {
                if rng.bool() {
                    cfg.wrap_column = sw;
                }
            }
            out.count(if w.prog.is_some() { "gen.gram" } else { "gen.seed" });
            let Some((f1, o1)) = common::run(&mut out, &cfg, &w.text) else { continue };
            // adversarial widths around the observed widest line
            let mut cfgs = vec![cfg.clone()];
            if rng.chance(1, 3) {
                let maxw = oracle::max_line_width(&f1, if cfg.use_tabs { 1 } else { 1 }) as u32;
                for w2 in [maxw, maxw.saturating_sub(1), maxw + 1] {
                    if w2 > 0 && w2 != cfg.wrap_column {
                        let mut c = cfg.clone();
                        c.wrap_column = w2;
                        cfgs.push(c);
                    }
                }
            }
            for (ci, cfg) in cfgs.iter().enumerate() {
                common::cfg_hist(&mut out, cfg);
                let (f1, o1) = if ci == 0 {
                    (f1.clone(), o1.clone())
                } else {
                    match common::run(&mut out, cfg, &w.text) {
                        Some(x) => x,
                        None => continue,
                    }
                };
                let Some((f2, o2)) = common::run(&mut out, cfg, &f1) else { continue };
                let fallback = o1.has_fallback() || o2.has_fallback();
                if o1.reflowed() {
                    out.count("calls_with_reflow");
                }
                if fallback {
                    out.count("calls_with_wrap_fallback");
                }
                if f2 != f1 {
                    let class = if fallback {
                        "wrap-fallback"
                    } else if (o1.reflow_cache_hit() || o2.reflow_cache_hit()) && f1.contains("'''") {
                        "reflow-child-cache"
                    } else {
                        "not-idempotent"
                    };
                    out.violate("C03", class, format!("{} [{}] {}", w.name, cfg.short(), first_diff_line(&f1, &f2)), &w.text, Some(cfg));
                } else if let Some((f3, _)) = common::run(&mut out, cfg, &f2) {
                    if f3 != f2 {
                        out.violate("C03", "not-idempotent", format!("{} F^3 != F^2: {}", w.name, first_diff_line(&f2, &f3)), &w.text, Some(cfg));
                    }
                }
                // formatted text in which one literal has been mis-indented again
                if ci == 0 && cfg.format_multiline_strings && f1.contains("'''") && rng.chance(1, 2) {
                    if let Some(x2) = perturb_one_literal(&f1, &mut rng) {
                        out.count("gen.perturbed-literal");
                        if let Some((g1, p1)) = common::run(&mut out, cfg, &x2) {
                            if let Some((g2, p2)) = common::run(&mut out, cfg, &g1) {
                                if g2 != g1 {
                                    let class = if p1.has_fallback() || p2.has_fallback() {
                                        "wrap-fallback"
                                    } else if p1.reflow_cache_hit() || p2.reflow_cache_hit() {
                                        "reflow-child-cache"
                                    } else {
                                        "not-idempotent"
                                    };
                                    out.violate("C03", class, format!("{}+perturbed-literal [{}] {}", w.name, cfg.short(), first_diff_line(&g1, &g2)), &x2, Some(cfg));
                                }
                            }
                        }
                    }
                }
                if f1 != w.text && oracle::line_count(&f1) >= 3 {
                    out.nontrivial.push(rng::hash_combine(rng::hash_str(&f1), rng::hash_str(&cfg.short())));
                }
                if k == 0 && ci == 0 && idx < 3 {
                    out.sample = Some(json!({"source": w.name, "config": cfg.short(), "input": short(&w.text, 300), "F(x)": short(&f1, 300), "F(F(x)) == F(x)": f1 == f2}));
                }
            }
        }
        out
    }
}
