//! C10 — indentation settings only re-render indentation.

use super::common;
use crate::cfg::{Cfg, HUGE_WIDTH};
use crate::oracle;
use crate::prop::{short, CaseOut, Ctx, Prop, Tier};
use crate::refscan::{self, RK};
use crate::rng::{self, Rng};
use serde_json::json;

pub struct C10;

fn lead_of(line: &str) -> (&str, &str) {
    let n = line.len() - line.trim_start_matches([' ', '\t']).len();
    line.split_at(n)
}

#[derive(Clone, Copy, PartialEq, Debug)]
enum LineKind {
    Normal,
    /// interior or closing line of the `.1`-th multi-line literal, whose opening quotes are on line `.0`
    Literal(usize, usize),
    /// interior line of another line-spanning token (block comment): kept as in the input
    Verbatim,
}

/// classify the physical lines of an output by the line-spanning reference tokens in it
fn line_kinds(out: &str) -> Vec<LineKind> {
    let lines = oracle::split_breaks(out);
    // byte offset at which each line starts
    let mut starts = Vec::with_capacity(lines.len());
    let mut pos = 0;
    for l in &lines {
        starts.push(pos);
        pos += l.len();
        let rest = &out[pos..];
        if rest.starts_with("\r\n") {
            pos += 2;
        } else if rest.starts_with('\n') || rest.starts_with('\r') {
            pos += 1;
        }
    }
    let mut kinds = vec![LineKind::Normal; lines.len()];
    let mut nth_literal = 0;
    for t in refscan::scan(out) {
        if t.kind == RK::MlStr {
            nth_literal += 1;
        }
        let txt = t.text(out);
        if !(txt.contains('\n') || txt.contains('\r')) {
            continue;
        }
        let first = starts.partition_point(|&s| s <= t.start) - 1;
        let last = starts.partition_point(|&s| s < t.end) - 1;
        for k in kinds.iter_mut().take(last + 1).skip(first + 1) {
            *k = if t.kind == RK::MlStr { LineKind::Literal(first, nth_literal - 1) } else { LineKind::Verbatim };
        }
    }
    kinds
}

fn skip_input(input: &str, fmt_mlstr: bool) -> bool {
    // inputs with verbatim line-spanning material: their interior lines are not indentation
    let toks = refscan::scan(input);
    let mask = oracle::verbatim_mask(input, &toks);
    toks.iter().enumerate().any(|(i, t)| {
        let txt = t.text(input);
        // verbatim regions, asm and broken tokens are skipped; well-formed line-spanning tokens
        // (comments, multi-line literals) are handled line by line below
        let _ = (fmt_mlstr, txt);
        mask[i] || t.in_asm || t.unterminated || t.kind == RK::UntermStr
    })
}

impl Prop for C10 {
    fn id(&self) -> &'static str {
        "C10"
    }
    fn cases(&self, ctx: &Ctx) -> u64 {
        ctx.tier.pick(20_000, 250_000)
    }
    fn rule(&self) -> &'static str {
        "well-formed inputs (seeds, grammar programs) with wrap_column = 4e9 x tab_width in {0,1,2,3,4,8,15,16,17,255,random} x continuation_indents in {0,1,2,3,15,16,17,255,random} x use_tabs in {true,false}; oracles: (1) replacing every leading tab of the use_tabs=true result by tab_width spaces gives the use_tabs=false result; (2) per line, indentation = (levels + continuation_indents*continuations) units, with levels and continuations inferred from two further executions (tab_width=1 with continuation_indents 1 and 0); (3) nothing but leading indentation differs between configurations. Non-trivial: output has an indented line (lines with continuations are counted separately in `observed`); inputs with line-spanning tokens are skipped (their interior lines are token text); distinct by input hash + (tab_width, continuation_indents)."
    }
    fn floor(&self, tier: Tier) -> u64 {
        tier.pick(2_000, 40_000)
    }
    fn run_case(&self, ctx: &Ctx, idx: u64) -> CaseOut {
        let mut out = CaseOut::default();
        let mut rng = Rng::derive(ctx.seed, "C10", idx);
        for k in 0..8 {
            let mut w = common::well_formed(ctx, &mut rng, 25);
            if rng.chance(1, 5) {
                // literals whose existing indentation uses either character, at various lengths
                w = common::WellFormed { text: common::mls_carrier(&mut rng), name: "mls-carrier".into(), prog: None, layout: None, seed_width: None };
            }
            let fms = !rng.chance(1, 6);
            if skip_input(&w.text, fms) {
                out.count("skipped_verbatim_multiline");
                continue;
            }
            let tw = if rng.chance(1, 6) { rng.below(256) as u8 } else { *rng.pick(&[0u8, 1, 2, 2, 3, 4, 8, 15, 16, 17, 255]) };
            let ci = if rng.chance(1, 6) { rng.below(256) as u8 } else { *rng.pick(&[0u8, 1, 2, 2, 3, 15, 16, 17, 255]) };
            let base = Cfg { wrap_column: HUGE_WIDTH, always_wrap_begin: rng.chance(1, 3), format_multiline_strings: fms, use_tabs: false, tab_width: tw, continuation_indents: ci, crlf: rng.chance(1, 4) };
            out.count(if w.prog.is_some() { "gen.gram" } else { "gen.seed" });
            let spaces = base.clone();
            let tabs = Cfg { use_tabs: true, ..base.clone() };
            let l11 = Cfg { tab_width: 1, continuation_indents: 1, ..base.clone() };
            let l10 = Cfg { tab_width: 1, continuation_indents: 0, ..base.clone() };
            let (Some((o_sp, ob1)), Some((o_tab, ob2)), Some((o11, ob3)), Some((o10, ob4))) = (common::run(&mut out, &spaces, &w.text), common::run(&mut out, &tabs, &w.text), common::run(&mut out, &l11, &w.text), common::run(&mut out, &l10, &w.text)) else {
                continue;
            };
            let fallback = ob1.has_fallback() || ob2.has_fallback() || ob3.has_fallback() || ob4.has_fallback();
            let sat = base.saturates();
            let class = |c: &'static str| -> &'static str {
                if fallback {
                    "wrap-fallback"
                } else if sat {
                    "u8-saturation"
                } else {
                    c
                }
            };
            let ls = oracle::split_breaks(&o_sp);
            let lt = oracle::split_breaks(&o_tab);
            let a11 = oracle::split_breaks(&o11);
            let a10 = oracle::split_breaks(&o10);
            if ls.len() != lt.len() || ls.len() != a11.len() || ls.len() != a10.len() {
                out.violate("C10", class("layout-changed"), format!("{} [{}] number of lines differs between indentation settings: spaces {} tabs {} (1,1) {} (1,0) {}", w.name, base.short(), ls.len(), lt.len(), a11.len(), a10.len()), &w.text, Some(&base));
                continue;
            }
            let mut has_both = false;
            let mut reported = false;
            let input_literals_conforming: Vec<bool> = refscan::scan(&w.text).iter().filter(|t| t.kind == RK::MlStr).map(|t| super::wf::mlstr_value(t.text(&w.text)).is_some()).collect();
            let kinds = line_kinds(&o_tab);
            if kinds != line_kinds(&o_sp) {
                out.violate("C10", class("layout-changed"), format!("{} [{}] line-spanning tokens sit on different lines under tabs and spaces", w.name, base.short()), &w.text, Some(&base));
                continue;
            }
            for i in 0..ls.len() {
                match kinds[i] {
                    LineKind::Normal => {}
                    LineKind::Verbatim => {
                        if ls[i] != lt[i] {
                            out.violate("C10", class("content-changed"), format!("{} [{}] line {}: interior of a line-spanning comment differs between tabs and spaces", w.name, base.short(), i + 1), &w.text, Some(&base));
                            reported = true;
                        }
                        continue;
                    }
                    LineKind::Literal(open, nth) => {
                        // interior and closing lines of a literal: the opening line's indentation, rendered
                        // in the configuration's unit, followed by text that must be identical
                        out.count("literal_lines_compared");
                        let (open_sp, _) = lead_of(ls[open]);
                        let (open_tb, _) = lead_of(lt[open]);
                        // literals that violate the indentation rule (judged on the input) are kept verbatim
                        let conforming = input_literals_conforming.get(nth).copied().unwrap_or(false);
                        let ok = if !fms || !conforming || ls[i].is_empty() || lt[i].is_empty() {
                            ls[i] == lt[i]
                        } else {
                            match (ls[i].strip_prefix(open_sp), lt[i].strip_prefix(open_tb)) {
                                (Some(a), Some(b)) => a == b,
                                _ => false,
                            }
                        };
                        if !ok && !reported {
                            out.violate("C10", class("literal-indentation-unit"), format!("{} [{}] line {}: interior line of a multi-line literal is {:?} under tabs and {:?} under spaces; the opening quotes' line is indented {:?} / {:?}", w.name, base.short(), i + 1, short(lt[i], 60), short(ls[i], 60), open_tb, open_sp), &w.text, Some(&base));
                            reported = true;
                        }
                        continue;
                    }
                }
                let (isp, rsp) = lead_of(ls[i]);
                let (itb, rtb) = lead_of(lt[i]);
                let (i11, r11) = lead_of(a11[i]);
                let (i10, r10) = lead_of(a10[i]);
                if reported {
                    break;
                }
                if rsp != rtb || rsp != r11 || rsp != r10 {
                    out.violate("C10", class("content-changed"), format!("{} [{}] line {}: text after the indentation differs between indentation settings: {:?} vs {:?}", w.name, base.short(), i + 1, short(rsp, 60), short(if rsp != rtb { rtb } else if rsp != r11 { r11 } else { r10 }, 60)), &w.text, Some(&base));
                    reported = true;
                    continue;
                }
                if rsp.is_empty() {
                    // blank lines carry no indentation
                    if !isp.is_empty() || !itb.is_empty() {
                        out.violate("C10", class("indent-arithmetic"), format!("{} [{}] line {}: blank line has indentation", w.name, base.short(), i + 1), &w.text, Some(&base));
                        reported = true;
                    }
                    continue;
                }
                // (1) tab substitution
                if !itb.chars().all(|c| c == '\t') || itb.len() * tw as usize != isp.len() || !isp.chars().all(|c| c == ' ') {
                    out.violate("C10", class("tab-substitution"), format!("{} [{}] line {}: tabs result indents {:?}, spaces result {:?} (tab_width {tw})", w.name, base.short(), i + 1, itb, isp), &w.text, Some(&base));
                    reported = true;
                    continue;
                }
                // (2) arithmetic
                let levels = i10.len();
                let conts = i11.len().saturating_sub(i10.len());
                if i11.len() < i10.len() {
                    out.violate("C10", class("indent-arithmetic"), format!("{} line {}: indentation with continuation_indents=1 smaller than with 0", w.name, i + 1), &w.text, Some(&base));
                    reported = true;
                    continue;
                }
                let expect_units = levels + ci as usize * conts;
                if itb.len() != expect_units {
                    out.violate("C10", class("indent-arithmetic"), format!("{} [{}] line {}: {} tabs, expected levels {levels} + {ci} x continuations {conts} = {expect_units}", w.name, base.short(), i + 1, itb.len()), &w.text, Some(&base));
                    reported = true;
                    continue;
                }
                if isp.len() != expect_units * tw as usize {
                    out.violate("C10", class("indent-arithmetic"), format!("{} [{}] line {}: {} spaces, expected ({levels} + {ci} x {conts}) x {tw} = {}", w.name, base.short(), i + 1, isp.len(), expect_units * tw as usize), &w.text, Some(&base));
                    reported = true;
                    continue;
                }
                if levels >= 1 {
                    has_both = true;
                }
                if conts >= 1 {
                    out.count("lines_with_continuation");
                }
                out.count("lines_compared");
            }
            if has_both {
                out.nontrivial.push(rng::hash_combine(rng::hash_str(&w.text), (tw as u64) << 8 | ci as u64));
            }
            out.count(&format!("tab_width.{}", match tw { 0 => "0", 1 => "1", 2..=4 => "2-4", 5..=16 => "5-16", _ => "17+" }));
            out.count(&format!("cont_indents.{}", match ci { 0 => "0", 1 => "1", 2..=4 => "2-4", 5..=16 => "5-16", _ => "17+" }));
            if sat {
                out.count("configs_with_u8_saturation");
            }
            if out.sample.is_none() && idx < 32 {
                out.sample = Some(json!({"source": w.name, "tab_width": tw, "continuation_indents": ci, "tabs output": short(&o_tab, 200), "spaces output": short(&o_sp, 200)}));
            }
        }
        out
    }
}
