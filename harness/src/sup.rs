//! Supervisor / worker machinery. The supervisor never executes pasfmt code itself: it spawns
//! worker processes, attributes crashes and hangs to the in-flight case, confirms them in a
//! solo process, classifies violations against known_findings.txt and writes the evidence.

use crate::prop::{CaseOut, Tier, Violation};
use crate::props;
use crate::rng;
use serde_json::json;
use std::collections::{BTreeMap, HashSet};
use std::io::{BufRead, BufReader, Write};
use std::path::{Path, PathBuf};
use std::process::{Command, Stdio};
use std::sync::atomic::{AtomicU64, Ordering};
use std::sync::mpsc;
use std::time::{Duration, Instant};

static CUR_IDX: AtomicU64 = AtomicU64::new(u64::MAX);
static CUR_START_MS: AtomicU64 = AtomicU64::new(0);

fn now_ms(t0: Instant) -> u64 {
    t0.elapsed().as_millis() as u64
}

fn raw_out(s: &str) {
    let out = std::io::stdout();
    let mut l = out.lock();
    let _ = l.write_all(s.as_bytes());
    let _ = l.flush();
}

fn env_seed() -> u64 {
    std::env::var("VERIF_SEED").ok().and_then(|s| s.parse().ok()).unwrap_or(1)
}

/// wall-clock budget after which workers stop *starting* cases (never a verdict)
fn time_budget(tier: Tier) -> Duration {
    let secs = std::env::var("VERIF_BUDGET_S").ok().and_then(|s| s.parse().ok()).unwrap_or(tier.pick(70, 1200));
    Duration::from_secs(secs)
}

/// hard per-case limit inside a worker: the watchdog thread reports the case and kills the worker
fn hard_case_secs() -> u64 {
    std::env::var("VERIF_CASE_HARD_S").ok().and_then(|s| s.parse().ok()).unwrap_or(90)
}

struct Acc {
    evals: u64,
    cases: u64,
    nontrivial: Vec<u64>,
    counters: BTreeMap<String, u64>,
    samples: Vec<serde_json::Value>,
}

impl Acc {
    fn new() -> Self {
        Acc { evals: 0, cases: 0, nontrivial: vec![], counters: BTreeMap::new(), samples: vec![] }
    }
    fn merge(&mut self, out: CaseOut) -> Vec<Violation> {
        self.evals += out.evals;
        self.cases += 1;
        self.nontrivial.extend(out.nontrivial);
        for (k, v) in out.counters {
            *self.counters.entry(k).or_insert(0) += v;
        }
        if let Some(s) = out.sample {
            if self.samples.len() < 3 {
                self.samples.push(s);
            }
        }
        out.violations
    }
}

/// stack size of the thread that executes cases: the default of the rayon worker threads on
/// which the real binary formats files
const CASE_THREAD_STACK: usize = 2 * 1024 * 1024;

/// sanitizer builds have much larger stack frames: their sub-runs ask for a bigger stack so that
/// an instrumentation-induced stack overflow is not mistaken for a memory error
fn case_thread_stack() -> usize {
    std::env::var("VERIF_STACK_MB").ok().and_then(|s| s.parse::<usize>().ok()).map(|mb| mb * 1024 * 1024).unwrap_or(CASE_THREAD_STACK)
}

pub fn worker_main(id: &str, tier: Tier, seed: u64, shard: u64, nshards: u64, from: u64, work_dir: PathBuf) {
    let id = id.to_string();
    let h = std::thread::Builder::new()
        .stack_size(case_thread_stack())
        .spawn(move || worker_body(&id, tier, seed, shard, nshards, from, work_dir))
        .expect("spawn case thread");
    if h.join().is_err() {
        // a panic outside the observed format calls is a defect of the harness itself
        let msg = crate::exec::LAST_PANIC_GLOBAL.lock().map(|g| g.clone()).unwrap_or_default();
        raw_out(&format!("X {msg}\n"));
        std::process::exit(70);
    }
}

fn worker_body(id: &str, tier: Tier, seed: u64, shard: u64, nshards: u64, from: u64, work_dir: PathBuf) {
    crate::exec::init();
    let prop = props::get(id).unwrap_or_else(|| {
        eprintln!("unknown property {id}");
        std::process::exit(64)
    });
    let ctx = crate::make_ctx(tier, seed, work_dir.clone());
    let t0 = Instant::now();
    // watchdog
    let hard = hard_case_secs();
    std::thread::spawn(move || loop {
        std::thread::sleep(Duration::from_millis(250));
        let idx = CUR_IDX.load(Ordering::SeqCst);
        if idx != u64::MAX {
            let started = CUR_START_MS.load(Ordering::SeqCst);
            if now_ms(t0).saturating_sub(started) > hard * 1000 {
                raw_out(&format!("H {idx}\n"));
                unsafe { libc::_exit(3) };
            }
        }
    });
    let budget = time_budget(tier);
    let n = prop.cases(&ctx);
    let mut acc = Acc::new();
    let mut truncated_at: Option<u64> = None;
    let mut idx = shard;
    while idx < n {
        if idx >= from {
            if t0.elapsed() > budget {
                truncated_at = Some(idx);
                break;
            }
            CUR_START_MS.store(now_ms(t0), Ordering::SeqCst);
            CUR_IDX.store(idx, Ordering::SeqCst);
            raw_out(&format!("S {idx}\n"));
            let out = prop.run_case(&ctx, idx);
            CUR_IDX.store(u64::MAX, Ordering::SeqCst);
            for mut v in acc.merge(out) {
                v.case_index = idx;
                raw_out(&format!("V {}\n", serde_json::to_string(&v).unwrap()));
            }
        }
        idx += nshards;
    }
    // distinct non-trivial hashes go to a file, the supervisor merges them
    let nt_path = work_dir.join(format!("nt-{shard}-{}.bin", std::process::id()));
    let mut bytes = Vec::with_capacity(acc.nontrivial.len() * 8);
    acc.nontrivial.sort_unstable();
    acc.nontrivial.dedup();
    for h in &acc.nontrivial {
        bytes.extend_from_slice(&h.to_le_bytes());
    }
    let _ = std::fs::write(&nt_path, bytes);
    let end = json!({
        "evals": acc.evals, "cases": acc.cases, "counters": acc.counters, "samples": acc.samples,
        "nt_file": nt_path, "truncated_at": truncated_at,
    });
    raw_out(&format!("E {}\n", end));
}

/// run exactly one case in a fresh process (confirmation of crashes/hangs, replay)
pub fn solo_main(id: &str, tier: Tier, seed: u64, idx: u64, work_dir: PathBuf) {
    let id = id.to_string();
    let h = std::thread::Builder::new()
        .stack_size(case_thread_stack())
        .spawn(move || solo_body(&id, tier, seed, idx, work_dir))
        .expect("spawn case thread");
    if h.join().is_err() {
        let msg = crate::exec::LAST_PANIC_GLOBAL.lock().map(|g| g.clone()).unwrap_or_default();
        raw_out(&format!("X {msg}\n"));
        std::process::exit(70);
    }
}

fn solo_body(id: &str, tier: Tier, seed: u64, idx: u64, work_dir: PathBuf) {
    crate::exec::init();
    let prop = props::get(id).unwrap_or_else(|| std::process::exit(64));
    let ctx = crate::make_ctx(tier, seed, work_dir);
    raw_out(&format!("S {idx}\n"));
    let out = prop.run_case(&ctx, idx);
    for mut v in out.violations {
        v.case_index = idx;
        raw_out(&format!("V {}\n", serde_json::to_string(&v).unwrap()));
    }
    raw_out("E {}\n");
}

enum Msg {
    Line(usize, String),
    Exit(usize, Option<i32>, Option<i32>),
}

struct Crash {
    idx: u64,
    hang: bool,
    status: String,
}

#[derive(Default)]
pub struct Known {
    /// (property, class) -> description
    pub open: BTreeMap<(String, String), String>,
    pub fixed: Vec<String>,
}

pub fn load_known() -> Known {
    let mut k = Known::default();
    let path = crate::verif_root().join("known_findings.txt");
    let Ok(text) = std::fs::read_to_string(path) else { return k };
    for line in text.lines() {
        let line = line.trim();
        if let Some(rest) = line.strip_prefix("open:") {
            let mut prop = None;
            let mut class = None;
            let mut words = vec![];
            for w in rest.split_whitespace() {
                if let Some(p) = w.strip_prefix("property=") {
                    prop = Some(p.to_string());
                } else if let Some(c) = w.strip_prefix("class=") {
                    class = Some(c.to_string());
                } else {
                    words.push(w);
                }
            }
            if let (Some(p), Some(c)) = (prop, class) {
                k.open.insert((p, c), words.join(" "));
            }
        } else if line.starts_with("fixed:") {
            k.fixed.push(line.to_string());
        }
    }
    k
}

fn spawn_worker(exe: &Path, id: &str, tier: Tier, seed: u64, shard: usize, nshards: usize, from: u64, work: &Path, tx: mpsc::Sender<Msg>) {
    let mut child = Command::new(exe)
        .args(["worker", id, tier.name(), &seed.to_string(), &shard.to_string(), &nshards.to_string(), &from.to_string()])
        .arg(work)
        .stdin(Stdio::null())
        .stdout(Stdio::piped())
        .stderr(Stdio::null())
        .spawn()
        .expect("spawn worker");
    let stdout = child.stdout.take().unwrap();
    std::thread::spawn(move || {
        let rd = BufReader::new(stdout);
        for line in rd.split(b'\n') {
            match line {
                Ok(l) => {
                    let _ = tx.send(Msg::Line(shard, String::from_utf8_lossy(&l).to_string()));
                }
                Err(_) => break,
            }
        }
        let st = child.wait().ok();
        use std::os::unix::process::ExitStatusExt;
        let _ = tx.send(Msg::Exit(shard, st.and_then(|s| s.code()), st.and_then(|s| s.signal())));
    });
}

fn solo_trace_path(work: &Path, idx: u64) -> PathBuf {
    work.join(format!("solo-trace-{idx}.jsonl"))
}

/// the call a killed solo process was in: last line of its input trace
fn last_traced_call(work: &Path, idx: u64) -> Option<(String, Option<crate::cfg::Cfg>)> {
    let text = std::fs::read_to_string(solo_trace_path(work, idx)).ok()?;
    let last = text.lines().last()?;
    let v: serde_json::Value = serde_json::from_str(last).ok()?;
    if v.get("returned").is_some() {
        // the last observed call came back: whatever hung was not the formatter
        return None;
    }
    let input = v["input"].as_str()?.to_string();
    let cfg = serde_json::from_value(v["cfg"].clone()).ok();
    Some((input, cfg))
}

fn run_solo(exe: &Path, id: &str, tier: Tier, seed: u64, idx: u64, work: &Path, timeout: Duration) -> (Vec<Violation>, Option<String>) {
    // returns violations printed, and Some(status) if the process died / timed out
    let _ = std::fs::remove_file(solo_trace_path(work, idx));
    let mut child = Command::new(exe)
        .args(["solo", id, tier.name(), &seed.to_string(), &idx.to_string()])
        .arg(work)
        .env("VERIF_TRACE_INPUTS", solo_trace_path(work, idx))
        .stdin(Stdio::null())
        .stdout(Stdio::piped())
        .stderr(Stdio::null())
        .spawn()
        .expect("spawn solo");
    let stdout = child.stdout.take().unwrap();
    let (tx, rx) = mpsc::channel();
    std::thread::spawn(move || {
        let rd = BufReader::new(stdout);
        let mut lines = vec![];
        for l in rd.split(b'\n').map_while(Result::ok) {
            lines.push(String::from_utf8_lossy(&l).to_string());
        }
        let _ = tx.send(lines);
    });
    let t0 = Instant::now();
    let mut status = None;
    loop {
        match child.try_wait() {
            Ok(Some(st)) => {
                use std::os::unix::process::ExitStatusExt;
                if !st.success() {
                    status = Some(match (st.code(), st.signal()) {
                        (_, Some(sig)) => format!("signal {sig}"),
                        (Some(c), _) => format!("exit {c}"),
                        _ => "unknown".into(),
                    });
                }
                break;
            }
            Ok(None) => {
                if t0.elapsed() > timeout {
                    let _ = child.kill();
                    let _ = child.wait();
                    status = Some(format!("timeout after {}s", timeout.as_secs()));
                    break;
                }
                std::thread::sleep(Duration::from_millis(50));
            }
            Err(_) => break,
        }
    }
    let lines = rx.recv_timeout(Duration::from_secs(5)).unwrap_or_default();
    let mut vs = vec![];
    let mut ended = false;
    for l in lines {
        if let Some(j) = l.strip_prefix("V ") {
            if let Ok(v) = serde_json::from_str::<Violation>(j) {
                vs.push(v);
            }
        } else if l.starts_with("E ") {
            ended = true;
        }
    }
    if ended && status.is_none() {
        (vs, None)
    } else {
        (vs, Some(status.unwrap_or_else(|| "ended without end marker".into())))
    }
}

fn sanitize(s: &str) -> String {
    s.chars().map(|c| if c.is_ascii_alphanumeric() || c == '-' || c == '_' { c } else { '_' }).take(60).collect()
}

fn write_replay(id: &str, tier: Tier, seed: u64, v: &Violation) -> PathBuf {
    let dir = crate::verif_root().join("replay").join(id);
    let _ = std::fs::create_dir_all(&dir);
    let h = rng::hash_str(&format!("{}{}{:?}", v.class, v.input, v.cfg));
    let path = dir.join(format!("{}-{:016x}.json", sanitize(&v.class), h));
    let j = json!({
        "property": id, "tier": tier.name(), "seed": seed, "case_index": v.case_index,
        "class": v.class, "detail": v.detail, "input": v.input, "cfg": v.cfg, "extra": v.extra,
        "how": format!("./check {id} --replay {}", path.display()),
    });
    let _ = std::fs::write(&path, serde_json::to_string_pretty(&j).unwrap());
    path
}

pub fn prepare_work(id: &str) -> PathBuf {
    let work = crate::verif_root().join("work").join(format!("{id}-{}", std::process::id()));
    let _ = std::fs::remove_dir_all(&work);
    std::fs::create_dir_all(&work).expect("create work dir");
    crate::seeds::generate_files(&work.join("seeds"));
    work
}

pub fn run(id: &str, tier: Tier) -> i32 {
    let t0 = Instant::now();
    let seed = env_seed();
    let Some(prop) = props::get(id) else {
        eprintln!("unknown property {id}");
        return 64;
    };
    let exe = std::env::current_exe().expect("current exe");
    let work = prepare_work(id);
    // witnesses of earlier runs of this check are stale
    let _ = std::fs::remove_dir_all(crate::verif_root().join("replay").join(id));
    let ctx = crate::make_ctx(tier, seed, work.clone());
    let n_cases = prop.cases(&ctx);
    let nshards = prop.workers().min(std::thread::available_parallelism().map(|n| n.get()).unwrap_or(8)).max(1);
    println!("[{id}] tier={} seed={seed} cases={n_cases} workers={nshards} seeds={}", tier.name(), ctx.seeds.len());

    let (tx, rx) = mpsc::channel::<Msg>();
    for shard in 0..nshards {
        spawn_worker(&exe, id, tier, seed, shard, nshards, 0, &work, tx.clone());
    }
    let mut last_started: Vec<Option<u64>> = vec![None; nshards];
    let mut ended: Vec<bool> = vec![false; nshards];
    let mut live = nshards;
    let mut violations: Vec<Violation> = vec![];
    let mut crashes: Vec<Crash> = vec![];
    let mut acc = Acc::new();
    let mut nt_files: Vec<PathBuf> = vec![];
    let mut truncated = 0u64;
    let mut infra_errors: Vec<String> = vec![];
    let mut respawns = 0;
    let mut hang_flag: Vec<bool> = vec![false; nshards];

    while live > 0 {
        let msg = match rx.recv_timeout(Duration::from_secs(3600)) {
            Ok(m) => m,
            Err(_) => {
                infra_errors.push("supervisor timed out waiting for workers".into());
                break;
            }
        };
        match msg {
            Msg::Line(sh, l) => {
                if let Some(r) = l.strip_prefix("S ") {
                    last_started[sh] = r.trim().parse().ok();
                } else if let Some(j) = l.strip_prefix("V ") {
                    match serde_json::from_str::<Violation>(j) {
                        Ok(v) => violations.push(v),
                        Err(e) => infra_errors.push(format!("bad violation record: {e}")),
                    }
                } else if let Some(r) = l.strip_prefix("X ") {
                    infra_errors.push(format!("harness panic in worker {sh}: {r}"));
                } else if let Some(r) = l.strip_prefix("H ") {
                    hang_flag[sh] = true;
                    last_started[sh] = r.trim().parse().ok();
                } else if let Some(j) = l.strip_prefix("E ") {
                    ended[sh] = true;
                    if let Ok(v) = serde_json::from_str::<serde_json::Value>(j) {
                        acc.evals += v["evals"].as_u64().unwrap_or(0);
                        acc.cases += v["cases"].as_u64().unwrap_or(0);
                        if let Some(c) = v["counters"].as_object() {
                            for (k, val) in c {
                                *acc.counters.entry(k.clone()).or_insert(0) += val.as_u64().unwrap_or(0);
                            }
                        }
                        if let Some(s) = v["samples"].as_array() {
                            for x in s {
                                if acc.samples.len() < 3 {
                                    acc.samples.push(x.clone());
                                }
                            }
                        }
                        if let Some(p) = v["nt_file"].as_str() {
                            nt_files.push(PathBuf::from(p));
                        }
                        if v["truncated_at"].as_u64().is_some() {
                            truncated += 1;
                        }
                    }
                }
            }
            Msg::Exit(sh, code, sig) => {
                if ended[sh] {
                    live -= 1;
                    continue;
                }
                // died mid-case
                let status = match (code, sig) {
                    (_, Some(s)) => format!("signal {s}"),
                    (Some(c), _) => format!("exit {c}"),
                    _ => "unknown".to_string(),
                };
                match last_started[sh] {
                    Some(idx) => {
                        crashes.push(Crash { idx, hang: hang_flag[sh], status });
                        hang_flag[sh] = false;
                        respawns += 1;
                        if respawns > 200 {
                            infra_errors.push("more than 200 worker deaths; giving up".into());
                            live -= 1;
                        } else {
                            // note: results of cases completed by the dead worker since its start are lost
                            // except violations (already streamed); counters are conservative
                            spawn_worker(&exe, id, tier, seed, sh, nshards, idx + 1, &work, tx.clone());
                        }
                    }
                    None => {
                        infra_errors.push(format!("worker {sh} died before starting a case ({status})"));
                        live -= 1;
                    }
                }
            }
        }
    }

    // confirm crashes / hangs in solo processes
    let mut slow_notes = 0;
    let mut formatter_hangs = 0;
    // (up to 8 confirmations at a time: each is one single-threaded process)
    let mut confirmed: Vec<(Vec<Violation>, Option<String>)> = vec![];
    for chunk in crashes.chunks(8) {
        let results: Vec<(Vec<Violation>, Option<String>)> = std::thread::scope(|sc| {
            let handles: Vec<_> = chunk
                .iter()
                .map(|c| {
                    let (exe, work) = (&exe, &work);
                    // termination is decided by C04 only: the other monitors just need to know which
                    // call the case was in, a short look is enough
                    let timeout = Duration::from_secs(if id != "C04" { 30 } else if c.hang { 240 } else { 90 });
                    sc.spawn(move || run_solo(exe, id, tier, seed, c.idx, work, timeout))
                })
                .collect();
            handles.into_iter().map(|h| h.join().unwrap_or((vec![], Some("confirmation thread failed".into())))).collect()
        });
        confirmed.extend(results);
    }
    for (c, (vs, died)) in crashes.iter().zip(confirmed) {
        violations.extend(vs);
        match died {
            Some(st) => {
                let mut class = if st.starts_with("timeout") { "hang".to_string() } else { format!("process-abort({st})") };
                let describe = props::describe_case(id, &ctx, c.idx).unwrap_or_default();
                // the observed call the solo process was in when it was killed
                let traced = last_traced_call(&work, c.idx);
                if let (true, Some((input, _))) = (st.starts_with("timeout"), &traced) {
                    if let Some(k) = prop.classify_hang(input) {
                        class = k;
                    }
                }
                if id != "C04" {
                    // termination and aborts are C04's statement; the other in-process monitors only
                    // note that a formatter call did not come back (when the trace shows that it was
                    // the formatter and not the monitor's own code)
                    if traced.is_some() {
                        formatter_hangs += 1;
                        println!("[{id}] note: case {}: a formatter call did not return ({st}); termination is decided by C04, this monitor skips the case", c.idx);
                    } else {
                        infra_errors.push(format!("case {} died outside a formatter call ({st}): harness problem", c.idx));
                    }
                    continue;
                }
                let (input, cfg) = match traced {
                    Some((i, c)) => (i, c),
                    None => (describe.clone(), None),
                };
                violations.push(Violation {
                    property: id.to_string(),
                    class,
                    detail: format!("worker died on case {} ({}), solo confirmation: {st}; {describe}", c.idx, c.status),
                    input,
                    cfg,
                    extra: serde_json::Value::Null,
                    case_index: c.idx,
                });
            }
            None => {
                if c.hang {
                    slow_notes += 1;
                    println!("[{id}] note: case {} exceeded the per-case wall-clock limit in a worker but finished in a solo process (slow, not a hang)", c.idx);
                } else {
                    infra_errors.push(format!("worker death on case {} ({}) did not reproduce solo", c.idx, c.status));
                }
            }
        }
    }

    // supervisor-side post pass (sanitizer builds etc.)
    let no_post = std::env::var_os("VERIF_NO_POST").is_some();
    if let Some(out) = if no_post { None } else { prop.post(&ctx) } {
        let vs = acc.merge(out);
        acc.cases -= 1;
        violations.extend(vs);
    }

    violations.extend(prop.aggregate(&acc.counters));

    // distinct non-trivial
    let mut distinct: HashSet<u64> = HashSet::new();
    for f in &nt_files {
        if let Ok(b) = std::fs::read(f) {
            for ch in b.chunks_exact(8) {
                distinct.insert(u64::from_le_bytes(ch.try_into().unwrap()));
            }
        }
    }
    for h in &acc.nontrivial {
        distinct.insert(*h);
    }

    // classification
    let known = load_known();
    let mut kf_counts: BTreeMap<String, (u64, PathBuf)> = BTreeMap::new();
    let mut real: Vec<(Violation, PathBuf)> = vec![];
    let mut seen_real: HashSet<u64> = HashSet::new();
    for v in &violations {
        let key = (v.property.clone(), v.class.clone());
        if known.open.contains_key(&key) {
            let e = kf_counts.entry(v.class.clone()).or_insert_with(|| (0, write_replay(id, tier, seed, v)));
            e.0 += 1;
        } else {
            let h = rng::hash_str(&format!("{}{}", v.class, v.input));
            if seen_real.insert(h) && real.len() < 25 {
                let p = write_replay(id, tier, seed, v);
                real.push((v.clone(), p));
            } else {
                seen_real.insert(h);
            }
        }
    }
    for (class, (n, p)) in &kf_counts {
        let what = known.open.get(&(id.to_string(), class.clone())).cloned().unwrap_or_default();
        println!("KNOWN-FINDING: property={id} class={class} {what} (n={n} this run, e.g. replay={})", p.display());
    }
    let mut class_counts: BTreeMap<String, u64> = BTreeMap::new();
    for v in &violations {
        *class_counts.entry(v.class.clone()).or_insert(0) += 1;
    }
    if !class_counts.is_empty() {
        println!("[{id}] violation records by class: {:?}", class_counts);
    }
    let n_real_total = violations.iter().filter(|v| !known.open.contains_key(&(v.property.clone(), v.class.clone()))).count();
    for (v, p) in &real {
        println!("VIOLATION property={id} replay={}", p.display());
        println!("  class={} detail={}", v.class, crate::prop::short(&v.detail, 300));
    }

    let nontrivial = distinct.len() as u64;
    let floor = prop.floor(tier);
    let mut inconclusive: Vec<String> = infra_errors.clone();
    if nontrivial < floor {
        inconclusive.push(format!("only {nontrivial} distinct non-trivial cases observed (floor {floor})"));
    }
    let skipped = acc.counters.get("skipped_slow").copied().unwrap_or(0);
    if acc.cases > 0 && skipped * 10 > acc.cases.max(acc.evals / 4) {
        inconclusive.push(format!("{skipped} cases skipped as slow: oracle blind too often"));
    }

    let wall = t0.elapsed().as_secs_f64();
    let mut coverage = serde_json::Map::new();
    coverage.insert("evaluations".into(), json!(acc.evals.max(acc.cases)));
    coverage.insert("distinct_nontrivial".into(), json!(nontrivial));
    coverage.insert("rule".into(), json!(prop.rule()));
    if acc.samples.is_empty() {
        // no case recorded a sample (they are taken from the first cases that reach the oracle):
        // describe the run by its counters instead of leaving the list empty
        let first: BTreeMap<&String, &u64> = acc.counters.iter().take(12).collect();
        acc.samples.push(json!({"note": "no per-case sample was recorded in this run; first counters shown", "counters": first}));
    }
    coverage.insert("samples".into(), json!(acc.samples));
    coverage.insert("cases_planned".into(), json!(n_cases));
    coverage.insert("cases_completed".into(), json!(acc.cases));
    coverage.insert("workers_truncated_by_time_budget".into(), json!(truncated));
    coverage.insert("observed".into(), json!(acc.counters));
    coverage.insert("known_finding_counts".into(), json!(kf_counts.iter().map(|(k, v)| (k.clone(), v.0)).collect::<BTreeMap<_, _>>()));
    coverage.insert("worker_deaths".into(), json!(crashes.len()));
    coverage.insert("slow_cases_confirmed_finished".into(), json!(slow_notes));
    coverage.insert("formatter_calls_not_returning_left_to_C04".into(), json!(formatter_hangs));
    coverage.insert("inconclusive_reasons".into(), json!(inconclusive));
    coverage.insert("exhaustive".into(), json!(acc.counters.get("exhaustive_complete").copied().unwrap_or(0) > 0 && truncated == 0));
    let verdict = if n_real_total > 0 { "violated" } else if !inconclusive.is_empty() { "inconclusive" } else { "held on what was observed" };
    coverage.insert("verdict".into(), json!(verdict));
    let evidence = json!({
        "property_id": id,
        "tier": tier.name(),
        "seed": seed,
        "level": "exploration",
        "coverage": coverage,
        "assumptions": prop.assumptions(),
        "wall_s": wall,
        "violations": n_real_total,
    });
    // (selftest.sh redirects the evidence of its runs on deliberately broken trees)
    let ev_dir = std::env::var_os("VERIF_EVIDENCE_DIR").map(PathBuf::from).unwrap_or_else(|| crate::verif_root().join("evidence"));
    let _ = std::fs::create_dir_all(&ev_dir);
    let _ = std::fs::write(ev_dir.join(format!("{id}.json")), serde_json::to_string_pretty(&evidence).unwrap());

    println!(
        "[{id}] {verdict}: evaluations={} cases={}/{} distinct_nontrivial={} violations={} known_findings={} wall={:.1}s",
        acc.evals, acc.cases, n_cases, nontrivial, n_real_total, kf_counts.values().map(|v| v.0).sum::<u64>(), wall
    );
    let mut keys: Vec<_> = acc.counters.iter().collect();
    keys.sort();
    let line: Vec<String> = keys.iter().take(40).map(|(k, v)| format!("{k}={v}")).collect();
    println!("[{id}] observed: {}", line.join(" "));
    let _ = std::fs::remove_dir_all(&work);
    if n_real_total > 0 {
        1
    } else if !inconclusive.is_empty() {
        for r in &inconclusive {
            println!("INCONCLUSIVE property={id} {r}");
        }
        2
    } else {
        0
    }
}

pub fn replay(path: &str) -> i32 {
    let Ok(text) = std::fs::read_to_string(path) else {
        eprintln!("cannot read {path}");
        return 64;
    };
    let Ok(j) = serde_json::from_str::<serde_json::Value>(&text) else {
        eprintln!("bad json");
        return 64;
    };
    let id = j["property"].as_str().unwrap_or("");
    let tier = Tier::parse(j["tier"].as_str().unwrap_or("quick"));
    let seed = j["seed"].as_u64().unwrap_or(1);
    let idx = j["case_index"].as_u64().unwrap_or(0);
    let class = j["class"].as_str().unwrap_or("");
    let exe = std::env::current_exe().expect("exe");
    let work = prepare_work(&format!("replay-{id}"));
    let (vs, died) = run_solo(&exe, id, tier, seed, idx, &work, Duration::from_secs(240));
    let _ = std::fs::remove_dir_all(&work);
    let mut hit = false;
    for v in &vs {
        println!("reproduced: class={} detail={}", v.class, crate::prop::short(&v.detail, 400));
        if v.class == class {
            hit = true;
        }
    }
    if let Some(st) = died {
        println!("solo process: {st}");
        hit = true;
    }
    if hit {
        println!("VIOLATION property={id} replay={path}");
        1
    } else {
        println!("not reproduced (class {class})");
        0
    }
}
