//! Formatter configuration as the harness sees it: a plain record that is turned into the
//! real `pasfmt::FormattingConfig` through its public TOML deserialisation, and then into the
//! shipped formatter through `pasfmt::make_formatter`.

use crate::rng::Rng;
use serde::{Deserialize, Serialize};

#[derive(Clone, Debug, PartialEq, Eq, Hash, Serialize, Deserialize)]
pub struct Cfg {
    pub wrap_column: u32,
    pub always_wrap_begin: bool,
    pub format_multiline_strings: bool,
    pub use_tabs: bool,
    pub tab_width: u8,
    pub continuation_indents: u8,
    pub crlf: bool,
}

impl Default for Cfg {
    fn default() -> Self {
        Cfg {
            wrap_column: 120,
            always_wrap_begin: false,
            format_multiline_strings: true,
            use_tabs: false,
            tab_width: 2,
            continuation_indents: 2,
            crlf: false,
        }
    }
}

pub const HUGE_WIDTH: u32 = 4_000_000_000;

impl Cfg {
    pub fn to_toml(&self) -> String {
        format!(
            "wrap_column = {}\nbegin_style = \"{}\"\nformat_multiline_strings = {}\nuse_tabs = {}\ntab_width = {}\ncontinuation_indents = {}\nline_ending = \"{}\"\n",
            self.wrap_column,
            if self.always_wrap_begin { "always_wrap" } else { "auto" },
            self.format_multiline_strings,
            self.use_tabs,
            self.tab_width,
            self.continuation_indents,
            if self.crlf { "crlf" } else { "lf" }
        )
    }
    /// `-C key=value` arguments for the real binary
    pub fn to_cli_args(&self) -> Vec<String> {
        let mut v = vec![];
        for (k, val) in [
            ("wrap_column", self.wrap_column.to_string()),
            ("begin_style", if self.always_wrap_begin { "always_wrap".into() } else { "auto".into() }),
            ("format_multiline_strings", self.format_multiline_strings.to_string()),
            ("use_tabs", self.use_tabs.to_string()),
            ("tab_width", self.tab_width.to_string()),
            ("continuation_indents", self.continuation_indents.to_string()),
            ("line_ending", if self.crlf { "crlf".into() } else { "lf".into() }),
        ] {
            v.push("-C".to_string());
            v.push(format!("{k}={val}"));
        }
        v
    }
    pub fn formatter(&self) -> pasfmt_core::prelude::Formatter {
        let fc: pasfmt::FormattingConfig =
            toml::from_str(&self.to_toml()).expect("harness config must deserialise");
        pasfmt::make_formatter(&fc)
    }
    pub fn nl(&self) -> &'static str {
        if self.crlf { "\r\n" } else { "\n" }
    }
    /// rendered width of one indentation level in columns/characters of output
    pub fn indent_unit_str(&self) -> String {
        if self.use_tabs { "\t".into() } else { " ".repeat(self.tab_width as usize) }
    }
    /// F11: the continuation width saturates in a u8
    pub fn saturates(&self) -> bool {
        !self.use_tabs && (self.tab_width as u32) * (self.continuation_indents as u32) > 255
    }
    pub fn short(&self) -> String {
        format!(
            "w{}{}{}{}t{}c{}{}",
            self.wrap_column,
            if self.always_wrap_begin { "B" } else { "b" },
            if self.format_multiline_strings { "M" } else { "m" },
            if self.use_tabs { "T" } else { "S" },
            self.tab_width,
            self.continuation_indents,
            if self.crlf { "R" } else { "N" }
        )
    }

    /// random full configuration, biased towards interesting values
    pub fn sample(rng: &mut Rng) -> Cfg {
        const WIDTHS: &[u32] = &[0, 1, 10, 20, 30, 30, 40, 45, 60, 80, 100, 120, 120, 200, HUGE_WIDTH];
        const TABW: &[u8] = &[0, 1, 2, 2, 2, 3, 4, 4, 8, 16, 255];
        const CI: &[u8] = &[0, 1, 2, 2, 2, 3, 4, 255];
        Cfg {
            wrap_column: if rng.chance(1, 5) { rng.range(2, 160) as u32 } else { *rng.pick(WIDTHS) },
            always_wrap_begin: rng.chance(1, 3),
            format_multiline_strings: !rng.chance(1, 5),
            use_tabs: rng.chance(1, 4),
            tab_width: if rng.chance(1, 8) { rng.below(256) as u8 } else { *rng.pick(TABW) },
            continuation_indents: if rng.chance(1, 8) { rng.below(256) as u8 } else { *rng.pick(CI) },
            crlf: rng.chance(1, 3),
        }
    }
    /// "ordinary" configuration: no degenerate widths / indents, useful for structural oracles
    pub fn sample_sane(rng: &mut Rng) -> Cfg {
        const WIDTHS: &[u32] = &[20, 30, 40, 60, 80, 100, 120, 200, HUGE_WIDTH];
        Cfg {
            wrap_column: if rng.chance(1, 4) { rng.range(15, 160) as u32 } else { *rng.pick(WIDTHS) },
            always_wrap_begin: rng.chance(1, 3),
            format_multiline_strings: !rng.chance(1, 6),
            use_tabs: rng.chance(1, 4),
            tab_width: *rng.pick(&[1u8, 2, 2, 3, 4, 8]),
            continuation_indents: *rng.pick(&[1u8, 2, 2, 3]),
            crlf: rng.chance(1, 3),
        }
    }
}
