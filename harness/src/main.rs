//! pfmon: supervisor, worker and replay tool of the pasfmt runtime monitors.

mod cfg;
mod cli;
mod exec;
mod gen;
mod oracle;
mod prop;
mod props;
mod refscan;
mod rng;
mod sanit;
mod seeds;
mod sup;

#[path = "/repo/core/datatests/generators/mod.rs"]
#[allow(dead_code, unused_imports, unused_macros)]
mod generators;

use prop::{Ctx, Tier};
use std::path::PathBuf;
use std::sync::Arc;

pub fn verif_root() -> PathBuf {
    std::env::var_os("VERIF_ROOT").map(PathBuf::from).unwrap_or_else(|| PathBuf::from("/verif"))
}

fn usage() -> ! {
    eprintln!(
        "usage:\n  pfmon run <ID> <quick|thorough>\n  pfmon worker <ID> <tier> <seed> <shard> <nshards> <from> <workdir>\n  pfmon solo <ID> <tier> <seed> <idx> <workdir>\n  pfmon replay <path>\n  pfmon seedgen <dir>\n  pfmon fmt [cfg-json]   (stdin -> stdout, prints events to stderr)\n  pfmon gen <seed> [size]   (print a generated program)"
    );
    std::process::exit(64)
}

fn main() {
    let args: Vec<String> = std::env::args().collect();
    if args.len() < 2 {
        usage();
    }
    match args[1].as_str() {
        "run" => {
            if args.len() < 4 {
                usage();
            }
            let code = sup::run(&args[2], Tier::parse(&args[3]));
            std::process::exit(code);
        }
        "worker" => {
            if args.len() < 9 {
                usage();
            }
            sup::worker_main(&args[2], Tier::parse(&args[3]), args[4].parse().unwrap(), args[5].parse().unwrap(), args[6].parse().unwrap(), args[7].parse().unwrap(), PathBuf::from(&args[8]));
        }
        "solo" => {
            if args.len() < 7 {
                usage();
            }
            sup::solo_main(&args[2], Tier::parse(&args[3]), args[4].parse().unwrap(), args[5].parse().unwrap(), PathBuf::from(&args[6]));
        }
        "replay" => {
            if args.len() < 3 {
                usage();
            }
            std::process::exit(sup::replay(&args[2]));
        }
        "seedgen" => {
            if args.len() < 3 {
                usage();
            }
            seeds::generate_files(&PathBuf::from(&args[2]));
            let s = seeds::load(&PathBuf::from(&args[2]));
            println!("{} seeds", s.len());
        }
        "fmt" => {
            exec::init();
            let cfg: cfg::Cfg = if args.len() > 2 { serde_json::from_str(&args[2]).expect("cfg json") } else { cfg::Cfg::default() };
            let mut input = String::new();
            std::io::Read::read_to_string(&mut std::io::stdin(), &mut input).unwrap();
            let obs = exec::format_obs(&cfg, &input, &[], u64::MAX);
            match &obs.out {
                Ok(s) => print!("{s}"),
                Err(p) => eprintln!("PANIC {} at {}", p.message, p.location),
            }
            eprintln!("steps={} events={:?} logs={:?}", obs.steps, obs.events, obs.logs);
        }
        "lines" => {
            // debug: print the logical lines of stdin
            use pasfmt_core::prelude::*;
            exec::init();
            let mut input = String::new();
            std::io::Read::read_to_string(&mut std::io::stdin(), &mut input).unwrap();
            match exec::lex_parse(&input, u64::MAX) {
                Ok(p) => {
                    for (i, l) in p.lines.iter().enumerate() {
                        let toks: Vec<String> = l.get_tokens().iter().map(|&t| p.tokens[t].get_content().chars().take(12).collect()).collect();
                        println!("#{i} {:?} level={} parent={:?} tokens={:?} {:?}", l.get_line_type(), l.get_level(), l.get_parent().map(|p| (p.line_index, p.global_token_index)), l.get_tokens().iter().take(3).collect::<Vec<_>>(), toks);
                    }
                }
                Err(e) => println!("PANIC {} at {}", e.message, e.location),
            }
        }
        "gen" => {
            let seed: u64 = args.get(2).and_then(|s| s.parse().ok()).unwrap_or(1);
            let size: usize = args.get(3).and_then(|s| s.parse().ok()).unwrap_or(20);
            let mut rng = rng::Rng::new(seed);
            let prog = gen::gram::generate(&mut rng, gen::gram::GramOpts { size, extended: std::env::var_os("GEN_EXTENDED").is_some(), ..Default::default() });
            let lay = gen::layout::Layout::build(&prog, &mut rng, &gen::layout::DecoOpts { inline_cond: std::env::var("GEN_INLINE_COND").ok().and_then(|v| v.parse().ok()).unwrap_or(0), ..(if std::env::var_os("GEN_PLAIN").is_some() { gen::layout::DecoOpts::none() } else { gen::layout::DecoOpts::light() }) }, false, "  ");
            print!("{}", lay.render());
        }
        _ => usage(),
    }
}

pub fn make_ctx(tier: Tier, seed: u64, work_dir: PathBuf) -> Ctx {
    let seeds = seeds::load(&work_dir.join("seeds"));
    Ctx { seed, tier, seeds: Arc::new(seeds), cli_bin: std::env::var_os("VERIF_CLI_BIN").map(PathBuf::from).unwrap_or_else(|| verif_root().join("target/cli/release/pasfmt")), work_dir }
}
