//! G-seed: the repository's data-test programs, regenerated from the current generator sources
//! (which are `#[path]`-included into this binary) and extracted with the suite's own rules.

use std::path::{Path, PathBuf};

#[derive(Clone, Debug, PartialEq, Eq)]
pub enum SeedKind {
    /// input of a logical-line parser test (DSL stripped)
    LogicalLine,
    /// input of a line-formatter test
    WrapInput,
    /// expected output of a line-formatter test
    WrapExpected,
}

#[derive(Clone, Debug)]
pub struct Seed {
    pub name: String,
    pub kind: SeedKind,
    pub text: String,
    /// width the suite formats this test with (line-formatter tests)
    pub width: u32,
}

const FILE_SEPARATOR: &str = "!#################################!";

pub fn generate_files(dir: &Path) {
    let _ = std::fs::remove_dir_all(dir);
    std::fs::create_dir_all(dir).expect("create seed dir");
    crate::generators::logical_line_parser::generate_test_files(&dir.join("logical_line_test"));
    crate::generators::optimising_line_formatter::generate_test_files(&dir.join("optimising_line_formatter"));
}

fn walk(dir: &Path, out: &mut Vec<PathBuf>) {
    let Ok(rd) = std::fs::read_dir(dir) else { return };
    let mut entries: Vec<_> = rd.filter_map(|e| e.ok()).map(|e| e.path()).collect();
    entries.sort();
    for p in entries {
        if p.is_dir() {
            walk(&p, out);
        } else {
            out.push(p);
        }
    }
}

/// the suite's `trim_string`
fn trim_string(input: &str) -> Option<String> {
    let mut lines = input.lines();
    if lines.next() != Some("") {
        return Some(input.to_string());
    }
    let leading = input
        .lines()
        .find(|l| !l.trim().is_empty())
        .or_else(|| input.lines().next())
        .map(|l| &l[0..l.len() - l.trim_start().len()])
        .unwrap_or("");
    let mut out = vec![];
    for line in lines {
        match line.strip_prefix(leading) {
            Some(c) => out.push(c),
            None if line.chars().all(char::is_whitespace) => out.push(line.trim()),
            None => return None,
        }
    }
    Some(out.join("\n"))
}

fn specified_width(input: &str) -> Option<u32> {
    const PAT: &str = "// wrap_column=";
    let idx = PAT.len() + input.find(PAT)?;
    let rest = &input[idx..];
    let end = rest.find(|c: char| c.is_ascii_whitespace()).unwrap_or(rest.len());
    rest[..end].parse().ok()
}

/// strip `{N}` marker comments as the logical line DSL does (markers are block comments whose
/// interior is a number)
fn strip_markers(content: &str) -> String {
    let mut out = String::with_capacity(content.len());
    let b = content.as_bytes();
    let mut i = 0;
    while i < b.len() {
        if b[i] == b'{' {
            if let Some(close) = content[i..].find('}') {
                let inner = &content[i + 1..i + close];
                if !inner.is_empty() && inner.bytes().all(|c| c.is_ascii_digit()) {
                    i += close + 1;
                    continue;
                }
            }
        }
        // skip over string literals and line comments verbatim so braces in them are untouched
        if b[i] == b'\'' {
            let mut j = i + 1;
            while j < b.len() && b[j] != b'\'' && b[j] != b'\n' {
                j += 1;
            }
            j = (j + 1).min(b.len());
            out.push_str(&content[i..j]);
            i = j;
            continue;
        }
        let ch = content[i..].chars().next().unwrap();
        out.push(ch);
        i += ch.len_utf8();
    }
    out
}

/// the suite's logical-line DSL: text before `---`, per line `metadata|content`
fn extract_logical_line_input(file: &str) -> Option<String> {
    let mut data: Vec<String> = vec![];
    for line in file.lines().map(str::trim).filter(|l| !l.is_empty()).take_while(|l| *l != "---") {
        match line.split_once('|') {
            None => {
                let last = data.last_mut()?;
                last.push('\n');
                last.push_str(line);
            }
            Some((meta, content)) if meta.trim().is_empty() => {
                let last = data.last_mut()?;
                last.push('\n');
                last.push_str(content);
            }
            Some((meta, content)) => {
                // metadata is made of digits, '_', ',', '^', ':' and blanks only
                if !meta.chars().all(|c| c.is_ascii_digit() || matches!(c, '_' | ',' | '^' | ' ' | ':')) {
                    // not DSL metadata: the '|' belongs to the code (should not happen)
                    let last = data.last_mut()?;
                    last.push('\n');
                    last.push_str(line);
                } else {
                    data.push(content.to_string());
                }
            }
        }
    }
    let mut out = String::new();
    for content in data {
        out.push_str(&strip_markers(content.trim_start()));
        out.push('\n');
    }
    Some(out)
}

pub fn load(dir: &Path) -> Vec<Seed> {
    let mut files = vec![];
    walk(dir, &mut files);
    let mut seeds = vec![];
    for f in files {
        let Ok(text) = std::fs::read_to_string(&f) else { continue };
        let rel = f.strip_prefix(dir).unwrap_or(&f).to_string_lossy().to_string();
        if rel.starts_with("logical_line_test") {
            if let Some(t) = extract_logical_line_input(&text) {
                seeds.push(Seed { name: rel, kind: SeedKind::LogicalLine, text: t, width: 30 });
            }
        } else {
            let width = specified_width(&text).unwrap_or(30);
            let (inp, exp) = match text.split_once(FILE_SEPARATOR) {
                Some((i, o)) => (i, Some(o)),
                None => (text.as_str(), None),
            };
            if let Some(t) = trim_string(inp) {
                seeds.push(Seed { name: rel.clone(), kind: SeedKind::WrapInput, text: t, width });
            }
            if let Some(t) = exp.and_then(trim_string) {
                seeds.push(Seed { name: format!("{rel}#expected"), kind: SeedKind::WrapExpected, text: t, width });
            }
        }
    }
    seeds
}
