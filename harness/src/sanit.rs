//! Sanitizer passes run by the supervisor after the behavioural workload (DESIGN 2.4).

use crate::prop::{CaseOut, Ctx, Tier};
use std::path::{Path, PathBuf};
use std::process::Command;

fn script() -> PathBuf {
    crate::verif_root().join("tools/sanitize.sh")
}

fn parse_kv(line: &str) -> std::collections::BTreeMap<String, String> {
    line.split_whitespace().filter_map(|w| w.split_once('=')).map(|(k, v)| (k.to_string(), v.to_string())).collect()
}

/// Miri on the lexer boundary product (both identifier routines)
pub fn miri_lexer(ctx: &Ctx, out: &mut CaseOut) {
    let (shards, per) = match ctx.tier {
        Tier::Quick => (16, 12),
        Tier::Thorough => (16, 250),
    };
    let r = Command::new(script()).args(["miri", &shards.to_string(), &per.to_string(), &ctx.seed.to_string()]).output();
    let Ok(r) = r else {
        out.count("miri.not_run");
        return;
    };
    let text = String::from_utf8_lossy(&r.stdout).to_string();
    let mut seen = 0;
    for line in text.lines().filter(|l| l.starts_with("SAN miri")) {
        let kv = parse_kv(line);
        let variant = kv.get("variant").cloned().unwrap_or_default();
        if kv.get("status").is_some() {
            out.count(&format!("miri.{variant}.build_failed"));
            continue;
        }
        seen += 1;
        let cases: u64 = kv.get("cases").and_then(|v| v.parse().ok()).unwrap_or(0);
        let ub: u64 = kv.get("undefined_behaviour_reports").and_then(|v| v.parse().ok()).unwrap_or(0);
        let viol: u64 = kv.get("oracle_violations").and_then(|v| v.parse().ok()).unwrap_or(0);
        let failed: u64 = kv.get("failed_shards").and_then(|v| v.parse().ok()).unwrap_or(0);
        out.add(&format!("miri.{variant}.cases_interpreted"), cases);
        out.evals += cases;
        if variant == "avx2" && kv.get("vectorised_routine_interpreted").map(|s| s.as_str()) == Some("true") {
            out.count("miri.vectorised_routine_interpreted");
        }
        if ub > 0 || viol > 0 {
            out.violate("C13", if ub > 0 { "miri-undefined-behaviour" } else { "miri-oracle-violation" }, format!("Miri ({variant}): {ub} undefined-behaviour reports, {viol} oracle violations; logs {}", kv.get("logs").cloned().unwrap_or_default()), "", None);
        } else if failed > 0 {
            out.add(&format!("miri.{variant}.failed_shards_inconclusive"), failed);
        }
    }
    if seen == 0 {
        out.count("miri.not_run");
    }
}

/// run a whole check again with a sanitizer-instrumented harness binary in a scratch root;
/// returns (exit code, worker deaths, evaluations)
fn subrun(exe: &Path, id: &str, ctx: &Ctx, envs: &[(&str, String)], tag: &str) -> Option<(i32, u64, u64, PathBuf)> {
    let root = ctx.work_dir.join(format!("subroot-{tag}"));
    let _ = std::fs::create_dir_all(root.join("target"));
    let real = crate::verif_root();
    let _ = std::fs::copy(real.join("known_findings.txt"), root.join("known_findings.txt"));
    let _ = std::os::unix::fs::symlink(real.join("target/cli"), root.join("target/cli"));
    let _ = std::os::unix::fs::symlink(real.join("tools"), root.join("tools"));
    let mut cmd = Command::new(exe);
    cmd.args(["run", id, "quick"]).env_remove("VERIF_EVIDENCE_DIR").env("VERIF_ROOT", &root).env("VERIF_SEED", (ctx.seed + 1000).to_string()).env("VERIF_NO_POST", "1");
    for (k, v) in envs {
        cmd.env(k, v);
    }
    let r = cmd.output().ok()?;
    let code = r.status.code().unwrap_or(-1);
    let ev: serde_json::Value = serde_json::from_str(&std::fs::read_to_string(root.join("evidence").join(format!("{id}.json"))).ok()?).ok()?;
    let deaths = ev["coverage"]["worker_deaths"].as_u64().unwrap_or(0);
    let evals = ev["coverage"]["evaluations"].as_u64().unwrap_or(0);
    Some((code, deaths, evals, root))
}

/// the property's quick workload replayed on an AddressSanitizer build of harness + pasfmt
pub fn asan_replay(ctx: &Ctx, id: &str, out: &mut CaseOut) {
    let r = Command::new(script()).arg("asan-build").output();
    let bin = r.ok().and_then(|r| String::from_utf8_lossy(&r.stdout).lines().find_map(|l| parse_kv(l).get("bin").cloned()));
    let Some(bin) = bin else {
        out.count("asan.build_failed_inconclusive");
        return;
    };
    let logs = ctx.work_dir.join("asan-logs");
    let _ = std::fs::create_dir_all(&logs);
    let opts = format!("detect_leaks=0:abort_on_error=1:halt_on_error=1:log_path={}/asan", logs.display());
    match subrun(Path::new(&bin), id, ctx, &[("ASAN_OPTIONS", opts), ("VERIF_STACK_MB", "512".into())], "asan") {
        Some((code, deaths, evals, _root)) => {
            let reports = std::fs::read_dir(&logs).map(|d| d.count()).unwrap_or(0) as u64;
            out.add("asan.evaluations", evals);
            out.add("asan.report_files", reports);
            out.add("asan.worker_deaths", deaths);
            out.evals += evals;
            if reports > 0 {
                let first = std::fs::read_dir(&logs).ok().and_then(|mut d| d.next()).and_then(|e| e.ok()).map(|e| std::fs::read_to_string(e.path()).unwrap_or_default()).unwrap_or_default();
                out.violate(id, "asan-report", format!("AddressSanitizer reported {reports} error(s) while replaying the quick workload; first report: {}", crate::prop::short(&first, 600)), "", None);
            } else if code == 1 {
                // the instrumented run found an ordinary violation too: surfaced by the normal run
                out.count("asan.subrun_reported_violation");
            } else if code != 0 {
                out.count("asan.subrun_inconclusive");
            }
        }
        None => out.count("asan.subrun_failed_inconclusive"),
    }
}

/// C18's quick workload on a ThreadSanitizer build of the real binary
pub fn tsan_batches(ctx: &Ctx, out: &mut CaseOut) {
    let r = Command::new(script()).arg("tsan-build").output();
    let bin = r.ok().and_then(|r| String::from_utf8_lossy(&r.stdout).lines().find_map(|l| parse_kv(l).get("bin").cloned()));
    let Some(bin) = bin else {
        out.count("tsan.build_failed_inconclusive");
        return;
    };
    let logs = ctx.work_dir.join("tsan-logs");
    let _ = std::fs::create_dir_all(&logs);
    let opts = format!("exitcode=66:log_path={}/tsan", logs.display());
    let exe = std::env::current_exe().unwrap();
    match subrun(&exe, "C18", ctx, &[("TSAN_OPTIONS", opts), ("VERIF_CLI_BIN", bin), ("VERIF_BUDGET_S", "240".into())], "tsan") {
        Some((code, _deaths, evals, _)) => {
            let reports = std::fs::read_dir(&logs).map(|d| d.count()).unwrap_or(0) as u64;
            out.add("tsan.invocations", evals);
            out.add("tsan.report_files", reports);
            out.evals += evals;
            if reports > 0 {
                let first = std::fs::read_dir(&logs).ok().and_then(|mut d| d.next()).and_then(|e| e.ok()).map(|e| std::fs::read_to_string(e.path()).unwrap_or_default()).unwrap_or_default();
                out.violate("C18", "data-race-report", format!("ThreadSanitizer reported in {reports} process(es); first report: {}", crate::prop::short(&first, 800)), "", None);
            } else if code == 1 {
                out.violate("C18", "tsan-build-batch-differs", "the batch oracle failed on the ThreadSanitizer build (see the ordinary run for the witness)".into(), "", None);
            } else if code != 0 {
                out.count("tsan.subrun_inconclusive");
            }
        }
        None => out.count("tsan.subrun_failed_inconclusive"),
    }
}

/// a property's CLI workload with the real (uninstrumented, release) binary under valgrind memcheck
pub fn memcheck_cli(ctx: &Ctx, id: &str, out: &mut CaseOut) {
    if Command::new("valgrind").arg("--version").output().map(|r| !r.status.success()).unwrap_or(true) {
        out.count("memcheck.not_available_inconclusive");
        return;
    }
    let logs = ctx.work_dir.join(format!("memcheck-logs-{id}"));
    let _ = std::fs::remove_dir_all(&logs);
    let _ = std::fs::create_dir_all(&logs);
    let _ = crate::cli::set_mode(&logs, 0o777);
    let exe = std::env::current_exe().unwrap();
    let wrapper = crate::verif_root().join("tools/vg-pasfmt.sh");
    let envs = [
        ("VERIF_CLI_BIN", wrapper.to_string_lossy().to_string()),
        ("VG_REAL_BIN", ctx.cli_bin.to_string_lossy().to_string()),
        ("VG_LOG_DIR", logs.to_string_lossy().to_string()),
        ("VERIF_BUDGET_S", "300".into()),
    ];
    match subrun(&exe, id, ctx, &envs, &format!("memcheck-{id}")) {
        Some((code, _deaths, evals, _)) => {
            let mut processes = 0u64;
            let mut reports = 0u64;
            let mut first = String::new();
            if let Ok(d) = std::fs::read_dir(&logs) {
                for e in d.flatten() {
                    processes += 1;
                    let t = std::fs::read_to_string(e.path()).unwrap_or_default();
                    if !t.trim().is_empty() {
                        reports += 1;
                        if first.is_empty() {
                            first = t;
                        }
                    }
                }
            }
            out.add("memcheck.invocations", evals);
            out.add("memcheck.processes_observed", processes);
            out.add("memcheck.processes_with_reports", reports);
            out.evals += processes;
            if reports > 0 {
                out.violate(id, "memcheck-report", format!("valgrind memcheck reported errors in {reports} of {processes} pasfmt processes; first report: {}", crate::prop::short(&first, 800)), "", None);
            } else if processes == 0 {
                out.count("memcheck.no_process_observed_inconclusive");
            } else if code == 1 {
                out.count("memcheck.subrun_reported_violation");
            } else if code != 0 {
                out.count("memcheck.subrun_inconclusive");
            }
        }
        None => out.count("memcheck.subrun_failed_inconclusive"),
    }
}
