//! Small driver for the undefined-behaviour interpreter (Miri) and for ASan: the C13 boundary
//! product on the real lexer, with the structural and differential oracles, and no dependencies
//! beyond pasfmt-core. Usage: lexmiri <shard> <nshards> <cases-per-shard> [seed]
//! Prints `OK cases=<n> pairs=<n> vectorised=<true|false>` or `VIOLATION ...` and exits 1.

use pasfmt_core::defaults::lexer::verif_identifier_end;
use pasfmt_core::prelude::*;

#[path = "../../harness/src/rng.rs"]
#[allow(dead_code)]
mod rng;

const DELIMS: &[(&str, bool)] = &[
    ("", false), (" ", false), ("\n", false), ("\u{3000}", false), (";", false), (".", false), (":=", false), ("(", false), ("'", false), ("{", false), ("//", false),
    ("0", true), ("_", true), ("z", true), ("é", true), ("漢", true), ("\u{1F600}", true), ("\u{80}", true),
];

fn word(class: usize, len: usize, r: &mut rng::Rng) -> String {
    const ALNUM: &[u8] = b"abcdefghijklmnopqrstuvwxyzABCDEFGHIJKLMNOPQRSTUVWXYZ0123456789_";
    let mut w = String::new();
    w.push(*r.pick(b"abcxyzABCXYZ_") as char);
    match class {
        0 => while w.len() < len { w.push(*r.pick(ALNUM) as char) },
        1 => while w.len() < len { w.push(*r.pick(b"azAZ09_") as char) },
        2 => { w = (*r.pick(&["begin", "END", "Procedure", "implementation", "ResourceString", "dispinterface"])).to_string(); }
        _ => {
            while w.len() < len { w.push(*r.pick(ALNUM) as char) }
            let pos = r.range(1, w.len());
            w.insert(pos, *r.pick(&['é', '漢', '\u{1F600}', '\u{80}']));
        }
    }
    w
}

fn check(input: &str, align: usize, expected_end: usize, first_len: usize) -> Result<bool, String> {
    let s = verif_identifier_end(input, align + first_len, false).unwrap();
    let v = verif_identifier_end(input, align + first_len, true);
    if let Some(v) = v {
        if v != s {
            return Err(format!("routines disagree: portable {s} vectorised {v} on {input:?}"));
        }
    }
    if s != expected_end {
        return Err(format!("identifier end {s}, expected {expected_end} on {input:?}"));
    }
    // whole lexer: lossless, one EOF last
    let toks = DelphiLexer {}.lex(input);
    let mut pos = 0;
    for (i, t) in toks.iter().enumerate() {
        let ws = t.get_leading_whitespace();
        let c = t.get_content();
        if &input[pos..pos + ws.len()] != ws || &input[pos + ws.len()..pos + ws.len() + c.len()] != c {
            return Err(format!("token {i} not a slice of the input at {pos}: {input:?}"));
        }
        pos += ws.len() + c.len();
        let last = i + 1 == toks.len();
        if (t.get_token_type() == RawTokenType::Eof) != last {
            return Err(format!("EOF token misplaced in {input:?}"));
        }
    }
    if pos != input.len() {
        return Err(format!("tokens cover {pos} of {} bytes: {input:?}", input.len()));
    }
    let first = &toks[0];
    if first.get_leading_whitespace().len() != align || first.get_content().len() != expected_end - align {
        return Err(format!("first token {:?} expected [{align}..{expected_end}] in {input:?}", first.get_content()));
    }
    Ok(v.is_some())
}

fn main() {
    let a: Vec<String> = std::env::args().collect();
    let shard: usize = a.get(1).and_then(|s| s.parse().ok()).unwrap_or(0);
    let nshards: usize = a.get(2).and_then(|s| s.parse().ok()).unwrap_or(1);
    let n: usize = a.get(3).and_then(|s| s.parse().ok()).unwrap_or(40);
    let seed: u64 = a.get(4).and_then(|s| s.parse().ok()).unwrap_or(1);
    let mut r = rng::Rng::derive(seed, "lexmiri", shard as u64);
    let mut pairs = 0;
    let mut vectorised = false;
    // lengths around the 32-byte chunk boundaries and alignments 0..=33, spread over the shards
    let lens: Vec<usize> = vec![1, 2, 7, 15, 30, 31, 32, 33, 34, 47, 63, 64, 65, 66, 95, 96, 97, 127, 128, 129, 200];
    for k in 0..n {
        let idx = shard + k * nshards;
        let len = lens[idx % lens.len()];
        let align = (idx / lens.len()) % 34;
        let class = r.below(4);
        let w = word(class, len, &mut r);
        let (delim, extends) = DELIMS[r.below(DELIMS.len())];
        // exact-size allocation: an over-read crosses the end of the allocation
        let mut s = String::with_capacity(align + w.len() + delim.len());
        for _ in 0..align {
            s.push(' ');
        }
        s.push_str(&w);
        s.push_str(delim);
        let input = s.into_boxed_str();
        let first_len = w.chars().next().unwrap().len_utf8();
        let expected_end = align + w.len() + if extends { delim.len() } else { 0 };
        match check(&input, align, expected_end, first_len) {
            Ok(v) => vectorised |= v,
            Err(e) => {
                println!("VIOLATION {e}");
                std::process::exit(1);
            }
        }
        pairs += 1;
    }
    // a few hostile whole inputs through the complete lexer
    for text in ["{$IF (X {c} 'a' // \n)} begin '''\n a\n ''' end. (*", "x := 'unterminated\n#13#$0D#%1 &&&a 1.5e+ $ % 漢\u{3000}é", "asm mov eax, 0FFh \"str\\\" @@l: end; // c"] {
        let toks = DelphiLexer {}.lex(text);
        assert!(toks.len() > 1);
    }
    println!("OK cases={n} pairs={pairs} vectorised={vectorised}");
}
