#!/usr/bin/env python3
"""Writes /verif/MANIFEST.json from the table below (kept in one place so it stays consistent)."""
import json, os, subprocess
ROOT = os.path.dirname(os.path.dirname(os.path.abspath(__file__)))

def hook_commits():
    out = subprocess.run(["git", "-C", "/repo", "log", "--format=%h %s"], capture_output=True, text=True).stdout
    return [l.split()[0] for l in out.splitlines() if l.split(" ", 1)[1].startswith("verif:")]

CHECKS = {
 "C01": dict(
   technique="runtime monitoring: metamorphic oracle (blank-stripped character sequence; case changes located with an independent reference scanner) over generated, mutated and hostile inputs x sampled configurations; one case in twenty through the real binary (stdin->stdout, files mode, byte order marks)",
   text="Exploration. Every format call of the real library on inputs from all generators is checked by an oracle that does not use pasfmt's lexer; held on K executions, never 'verified'.",
   note="Trusted: the harness' reference scanner for locating keyword-capable words and directive names on the input; generators' reach (listed in evidence)."),
 "C02": dict(
   technique="runtime monitoring: re-scan oracle with an independent reference scanner (plus pasfmt's own lexer as second opinion) under the documented normalisation relation, on grammar programs whose tokens are known by construction, decorated layouts, re-layouts, seeds and a token-pair sweep",
   text="Exploration over well-formed programs x layouts x configurations; the oracle compares scans of input and output token by token.",
   note="Trusted: reference scanner; 'well-formed' = derivable from the harness grammar or a data-test seed that scans cleanly."),
 "C03": dict(
   technique="runtime monitoring: fixpoint oracle F(F(x))==F(x)==F^3 with adversarial widths and perturbed literals, and the same claim through the real binary (pasfmt f; pasfmt --mode=check f; second run leaves bytes and mtime); hook events (WrapFallback, Reflow, ChildCacheHitDuringReflow) give the signatures of known findings",
   text="Exploration. Byte comparison of repeated executions of the real formatter under sampled configurations.",
   note="Trusted: 'well-formed' as in C02; known-finding classes listed in known_findings.txt blind the check to exactly those signatures."),
 "C04": dict(
   technique="runtime monitoring: crash/abort observation in supervised worker processes (2 MiB stacks like the binary's worker threads), logical step-budget watchdog through hooks in lexer/parser/wrapper loops, CPU-time watchdog with solo confirmation, growth monitor (steps and thread CPU time) on 25 scaling families incl. long-header statement chains; exhaustive enumeration of short token sequences; AddressSanitizer replay of the quick workload in the thorough tier",
   text="Exploration with exhaustive sub-spaces (all sequences up to length 2 quick / 3 thorough over the listed alphabet, length 4 over the opener sub-alphabet). Panic, process death, > 2000*(n+16)^2 logical steps or a confirmed 240 s timeout is a violation.",
   note="Trusted: step hooks cover the loops listed in DESIGN.md; loops without a hook are covered only by the CPU-time watchdog. Release profile decides."),
 "C05": dict(
   technique="runtime monitoring: structure oracle over generator-known statement/member/opener/closer tokens located in the output by non-blank ordinal; relative indentation rule checked per block, and column 0 for what the generator starts at the file's outermost level; hook events and generator context give known-finding signatures",
   text="Exploration over grammar programs x layouts x widths x begin_style.",
   note="Trusted: the generator's role annotations (what is a statement of which block); C01 (ordinals) is checked separately."),
 "C06": dict(
   technique="runtime monitoring: metamorphic oracle F(x)==F(relayout(x)) over admissible re-layouts (one line, token per line, random gaps), failing pairs minimised to the responsible gaps by delta debugging",
   text="Exploration over well-formed programs x 2-4 re-layouts x configurations.",
   note="Trusted: admissibility of re-layouts is by construction (comment-touching gaps, blank-line runs, verbatim material untouched); gluing rules of the layout are conservative."),
 "C07": dict(
   technique="runtime monitoring: region oracle - bytes of generator-placed pasfmt off/on regions and asm bodies (LF, CRLF and lone-CR line ends) must reappear unchanged at the place given by the non-blank ordinal; canonical-whitespace oracle outside regions; toggle look-alikes",
   text="Exploration over grammar programs with 1-3 regions at arbitrary token boundaries, all spellings, x configurations.",
   note="Trusted: reference toggle recogniser written from the property text; reference scanner for the outside-whitespace check."),
 "C08": dict(
   technique="runtime monitoring: whitespace oracle on the gaps between reference-scanner tokens of every output (all generators x full configuration space); hook events and configuration predicates give known-finding signatures",
   text="Exploration; universal clauses on all inputs, end-of-file clause on well-formed inputs.",
   note="Trusted: reference scanner delimits tokens, verbatim regions and asm bodies in the output."),
 "C09": dict(
   technique="runtime monitoring: terminator oracle on output gaps and re-indented literals, plus two metamorphic relations (crlf result == lf result with every terminator substituted, exactly, when nothing is kept verbatim across lines; LF vs CRLF input under either configured ending)",
   text="Exploration over all generators x input endings x configurations.",
   note="Trusted: reference scanner; verbatim line-spanning tokens are exempt as the property says."),
 "C10": dict(
   technique="runtime monitoring: metamorphic oracle across four executions per input (tabs, spaces, and two probe configurations that reveal levels and continuations) with unconstrained width",
   text="Exploration over well-formed inputs x tab_width x continuation_indents incl. the u8 boundary.",
   note="Inputs with line-spanning tokens are skipped (interior lines are token text); literal re-indentation per configuration is covered by C12."),
 "C11": dict(
   technique="runtime monitoring: metamorphic relations between executions at two widths chosen from observed line lengths; half of the cases sweep one tiny program over every width from 8 to its widest line and judge all pairs; rate monitors bound the known search-heuristic findings (per-run counts aggregated over all workers, per pair and per swept program)",
   text="Exploration over well-formed inputs x width pairs x other settings.",
   note="Width is measured as the wrapper measures it (UTF-8 bytes, a tab counts one)."),
 "C12": dict(
   technique="runtime monitoring: value oracle on literals whose text and value are known by construction (literal product x carrier programs x configurations), located in the output by non-blank ordinal (by value when ordinals cannot be aligned)",
   text="Exploration over the literal product x 29 carriers x configurations.",
   note="Trusted: generator-computed values; whitespace-only lines that are not a prefix of the closing indentation are not generated (the property text is ambiguous about them)."),
 "C13": dict(
   technique="runtime monitoring: structural oracle on DelphiLexer::lex output, boundaries known by construction for the word-length x alignment x delimiter product, direct differential of the vectorised and portable identifier routines (hook), whole-lexer differential with the portable routine forced, reference-scanner comparison of boundaries/kinds/keyword recognition; Miri and ASan passes in the thorough tier",
   text="Exploration with an exhaustive (length, alignment) x delimiter x word-class product in the thorough tier.",
   note="Trusted: reference scanner for the comparison part; construction for the boundary part."),
 "C14": dict(
   technique="runtime monitoring: invariant walk over the parse result at the quiescent point after parsing (public API), on all generators and on every sequence up to length 4 (quick) / 6 (thorough) over a 10-lexeme directive/comment alphabet; parent/end-of-file clauses on well-formed programs; pass-count hook",
   text="Exploration.",
   note="Trusted: nothing beyond the public parse result; 'well-formed' as in C02."),
 "C15": dict(
   technique="runtime monitoring: differential execution with/without cursors and a token-relative position oracle using pasfmt's own tokenisation of the input and non-blank ordinals; verbatim material (asm, off regions) in LF/CRLF/CR form as cursor inputs; the binary's CURSOR= line compared with the library, cursors dropped for multi-file runs",
   text="Exploration over all generators x cursor lists x configurations.",
   note="The unchanged-token clause is checked only when the output has the same non-blank characters as the input."),
 "C16": dict(
   technique="runtime monitoring of the real binary: byte/mtime/inode observation of files around invocations in the three modes and all path forms (also under legacy encodings); offline checker over strace-recorded syscall logs (no write-class syscall in stdout/check mode, ftruncate length == bytes written, no O_TRUNC); reference = stdin->stdout of the same binary; valgrind memcheck on the release binary over the same workload in the thorough tier",
   text="Exploration over contents (result shorter/longer/equal/empty) x modes x path forms x configurations, plus failing files (unreadable as user nobody, undecodable, missing).",
   note="Trusted: the stdin->stdout path of the binary as reference, as the property defines it."),
 "C17": dict(
   technique="runtime monitoring of the real binary: byte-level oracle BOM + encode(F(decode(bytes))) with the library call as F and an independent codec, x 25 encodings x BOM kinds x file/stdin x {original text, the formatted result fed back}; malformed inputs must be rejected untouched; valgrind memcheck on the release binary over the same workload in the thorough tier",
   text="Exploration.",
   note="Trusted: encoding_rs as codec for legacy encodings; Rust std for UTF-8/UTF-16."),
 "C18": dict(
   technique="runtime monitoring of the real binary: batch vs one-at-a-time byte comparison under varied thread counts with hook-injected per-file delays (files mode; in one batch of three also stdout mode, whose output must be exactly the members' own sections, each contiguous); schedule trace hook (thread, order, reused buffer capacity) measures distinct schedules and buffer-reuse events; TSan build in the thorough tier",
   text="Exploration (schedule sampling with perturbation, not enumeration).",
   note="Trusted: the single-file run of the same binary as reference."),
 "C19": dict(
   technique="runtime monitoring of the real binary from nested working directories: a 20-line reference resolver predicts the effective configuration; metamorphic oracle 'however specified => same bytes'; rejection checks on exit status and untouched files (unknown keys, ill-typed values, TOML syntax errors, non-UTF-8 files, discovered or named); valgrind memcheck on the release binary in the thorough tier",
   text="Exploration over depths 0-6 (one case in eight: 10-48 levels with files only near the top), several pasfmt.toml, --config-file, -C splits, invalid settings.",
   note="Trusted: the reference resolver written from the property text."),
}

NOT_YET = {}

def main():
    props = [json.loads(l) for l in open(os.path.join(ROOT, "properties.jsonl"))]
    checks = []
    na = []
    for p in props:
        pid = p["id"]
        if pid in CHECKS:
            c = CHECKS[pid]
            checks.append({
                "property_id": pid,
                "quick_cmd": f"./check {pid} quick",
                "thorough_cmd": f"./check {pid} thorough",
                "evidence_file": f"/verif/evidence/{pid}.json",
                "replay_cmd_template": f"./check {pid} --replay {{path}}",
                "engine": "pfmon",
                "level_claimed": {"category": "exploration", "text": c["text"], "design_ref": "DESIGN.md section 2, " + pid},
                "level_note": c["note"],
                "technique": c["technique"],
            })
        else:
            na.append({"property_id": pid, "reason": NOT_YET.get(pid, "monitor designed (DESIGN.md) but not built yet in this revision; runtime monitoring applies to this property and the check is being added")})
    m = {
        "version": 1,
        "setup_cmd": "./check setup",
        "hooks": {
            "guard": "cargo feature `verif` on pasfmt-core and pasfmt-orchestrator, forwarded by the `verif` feature of the pasfmt crate; off by default",
            "enable": "harness depends on /repo/core and /repo/front-end by path with features=[\"verif\"]; the binary is built with `cargo build --release -p pasfmt --features verif --target-dir /verif/target/cli`",
            "baseline_off_cmd": "cd /repo && cargo test --workspace --no-fail-fast --offline",
            "source_commits": hook_commits(),
            "add_only": True,
        },
        "engines": [{"name": "pfmon", "path": "/verif/harness", "serves_properties": sorted(CHECKS), "kind_free_text": "Rust supervisor/worker harness: generators, independent reference scanner, oracles over observed executions and hook event logs, evidence writer"}],
        "checks": checks,
        "notes": "Runtime monitoring and sanitizers only. Verdicts are three-valued: exit 0 held on what was observed, exit 1 VIOLATION, exit 2 INCONCLUSIVE (never on the unchanged tree). Known findings: /verif/known_findings.txt.",
        "not_applicable": na,
    }
    json.dump(m, open(os.path.join(ROOT, "MANIFEST.json"), "w"), indent=1)
    print("wrote MANIFEST.json:", len(checks), "checks,", len(na), "not claimed")

main()
