#!/usr/bin/env python3
"""Writes /verif/MANIFEST.json from the table below (kept in one place so it stays consistent)."""
import json, os, subprocess
ROOT = os.path.dirname(os.path.dirname(os.path.abspath(__file__)))

def hook_commits():
    out = subprocess.run(["git", "-C", "/repo", "log", "--format=%h %s"], capture_output=True, text=True).stdout
    return [l.split()[0] for l in out.splitlines() if l.split(" ", 1)[1].startswith("verif:")]

CHECKS = {
 "C01": dict(
   technique="runtime monitoring: metamorphic oracle (blank-stripped character sequence, case changes located with an independent reference scanner) over generated, mutated and hostile inputs x sampled configurations",
   text="Exploration. Every format call of the real library (make_formatter built from the working tree) on inputs from all generators is checked by an oracle that does not use pasfmt's lexer; held on K executions, never 'verified'.",
   note="Trusted: the harness' reference scanner for locating keyword-capable words and directive names on the input; generators' reach (listed in evidence).",
   ref="DESIGN.md 2/C01"),
 "C03": dict(
   technique="runtime monitoring: fixpoint oracle F(F(x))==F(x)==F^3 on well-formed generated programs and data-test seeds, widths chosen adversarially from observed line lengths; hook events classify wrapper fallbacks and reflow cache reuse",
   text="Exploration. Byte comparison of repeated executions of the real formatter under sampled configurations; known-finding class keyed on the ChildCacheHitDuringReflow hook event.",
   note="Trusted: 'well-formed' means derivable from the harness grammar generator or a data-test seed.",
   ref="DESIGN.md 2/C03"),
 "C04": dict(
   technique="runtime monitoring: crash/abort observation in supervised worker processes, logical step-budget watchdog through hooks in lexer/parser/wrapper loops, CPU-time watchdog with solo confirmation, growth monitor on scaling families; exhaustive enumeration of short token sequences",
   text="Exploration, with exhaustive sub-spaces (all sequences up to length 2 quick / 3 thorough over the listed alphabet, length 4 over the opener sub-alphabet). A call that panics, aborts the process, exceeds 2000*(n+16)^2 logical steps or is not finished after a confirmed 150 s is a violation.",
   note="Trusted: step hooks cover the loops listed in DESIGN.md; loops without a hook are covered only by the CPU-time watchdog. Release profile decides.",
   ref="DESIGN.md 2/C04"),
}

NOT_YET = {}

def main():
    props = [json.loads(l) for l in open(os.path.join(ROOT, "properties.jsonl"))]
    checks = []
    na = []
    for p in props:
        pid = p["id"]
        if pid in CHECKS:
            c = CHECKS[pid]
            checks.append({
                "property_id": pid,
                "quick_cmd": f"./check {pid} quick",
                "thorough_cmd": f"./check {pid} thorough",
                "evidence_file": f"/verif/evidence/{pid}.json",
                "replay_cmd_template": f"./check {pid} --replay {{path}}",
                "engine": "pfmon",
                "level_claimed": {"category": "exploration", "text": c["text"], "design_ref": c["ref"]},
                "level_note": c["note"],
                "technique": c["technique"],
            })
        else:
            na.append({"property_id": pid, "reason": NOT_YET.get(pid, "monitor designed (DESIGN.md) but not built yet in this revision; runtime monitoring applies to this property and the check is being added")})
    m = {
        "version": 1,
        "setup_cmd": "./check setup",
        "hooks": {
            "guard": "cargo feature `verif` on pasfmt-core and pasfmt-orchestrator, forwarded by the `verif` feature of the pasfmt crate; off by default",
            "enable": "harness depends on /repo/core and /repo/front-end by path with features=[\"verif\"]; the binary is built with `cargo build --release -p pasfmt --features verif --target-dir /verif/target/cli`",
            "baseline_off_cmd": "cd /repo && cargo test --workspace --no-fail-fast --offline",
            "source_commits": hook_commits(),
            "add_only": True,
        },
        "engines": [{"name": "pfmon", "path": "/verif/harness", "serves_properties": sorted(CHECKS), "kind_free_text": "Rust supervisor/worker harness: generators, independent reference scanner, oracles over observed executions and hook event logs, evidence writer"}],
        "checks": checks,
        "notes": "Runtime monitoring and sanitizers only. Verdicts are three-valued: exit 0 held on what was observed, exit 1 VIOLATION, exit 2 INCONCLUSIVE (never on the unchanged tree). Known findings: /verif/known_findings.txt.",
        "not_applicable": na,
    }
    json.dump(m, open(os.path.join(ROOT, "MANIFEST.json"), "w"), indent=1)
    print("wrote MANIFEST.json:", len(checks), "checks,", len(na), "not claimed")

main()
