#!/usr/bin/env bash
# Sanitizer passes used by the checks (built lazily, cached under /verif/target).
#   sanitize.sh miri <shards> <cases-per-shard> <seed>     Miri on the lexer boundary product, once with +avx2, once without
#   sanitize.sh asan-build                                 ASan build of pfmon -> prints the binary path
#   sanitize.sh tsan-build                                 TSan build of pasfmt (-Zbuild-std) -> prints the binary path
# Output: lines `SAN <tool> <key>=<value> ...`; exit 0 unless the tool could not be run (exit 3).
set -u
ROOT="$(cd "$(dirname "${BASH_SOURCE[0]}")/.." && pwd)"
REPO="${PASFMT_REPO:-/repo}"
export CARGO_NET_OFFLINE=true
case "${1:-}" in
  miri)
    shards="${2:-16}"; per="${3:-40}"; seed="${4:-1}"
    cd "$ROOT/harness-miri" || exit 3
    for variant in avx2 scalar; do
      if [ "$variant" = avx2 ]; then flags="-C target-feature=+avx2"; else flags=""; fi
      tdir="$ROOT/target/miri-$variant"
      # build once (the first invocation compiles), then run the shards in parallel
      RUSTFLAGS="$flags" MIRIFLAGS="-Zmiri-disable-isolation" cargo +nightly miri run --target-dir "$tdir" -- 0 1 1 "$seed" > "$tdir.build.log" 2>&1 || { echo "SAN miri variant=$variant status=build-failed log=$tdir.build.log"; exit 3; }
      pids=()
      for s in $(seq 0 $((shards-1))); do
        ( RUSTFLAGS="$flags" MIRIFLAGS="-Zmiri-disable-isolation" cargo +nightly miri run --target-dir "$tdir" -- "$s" "$shards" "$per" "$seed" > "$tdir.shard$s.log" 2>&1; echo $? > "$tdir.shard$s.rc" ) &
        pids+=($!)
      done
      wait "${pids[@]}"
      cases=0; ub=0; viol=0; vec=false; failed=0
      for s in $(seq 0 $((shards-1))); do
        l="$tdir.shard$s.log"
        if grep -q "^OK cases=" "$l"; then
          c=$(grep "^OK cases=" "$l" | sed 's/.*pairs=\([0-9]*\).*/\1/'); cases=$((cases+c))
          grep -q "vectorised=true" "$l" && vec=true
        else
          failed=$((failed+1))
          grep -q "Undefined Behavior" "$l" && ub=$((ub+1))
          grep -q "^VIOLATION" "$l" && viol=$((viol+1))
        fi
      done
      echo "SAN miri variant=$variant cases=$cases vectorised_routine_interpreted=$vec undefined_behaviour_reports=$ub oracle_violations=$viol failed_shards=$failed logs=$tdir.shard*.log"
    done
    ;;
  asan-build)
    cd "$ROOT/harness" || exit 3
    RUSTFLAGS="-Zsanitizer=address -Cforce-frame-pointers=yes" cargo +nightly build --release --offline --target x86_64-unknown-linux-gnu --target-dir "$ROOT/target/asan" > "$ROOT/target/asan-build.log" 2>&1 || { echo "SAN asan status=build-failed log=$ROOT/target/asan-build.log"; exit 3; }
    echo "SAN asan bin=$ROOT/target/asan/x86_64-unknown-linux-gnu/release/pfmon"
    ;;
  tsan-build)
    cd "$REPO" || exit 3
    RUSTFLAGS="-Zsanitizer=thread" cargo +nightly build --release --offline -Zbuild-std --target x86_64-unknown-linux-gnu -p pasfmt --features verif --target-dir "$ROOT/target/tsan" > "$ROOT/target/tsan-build.log" 2>&1 || { echo "SAN tsan status=build-failed log=$ROOT/target/tsan-build.log"; exit 3; }
    echo "SAN tsan bin=$ROOT/target/tsan/x86_64-unknown-linux-gnu/release/pasfmt"
    ;;
  *) echo "usage: sanitize.sh miri|asan-build|tsan-build"; exit 64;;
esac
