#!/usr/bin/env python3
import json,subprocess,sys
j=json.load(open(sys.argv[1]))
print("CLASS",j['class']); print("DETAIL",j['detail'][:600]); print("CFG",j['cfg'])
if '-i' in sys.argv: print("=====INPUT"); print(j['input'])
cfg=json.dumps(j['cfg']) if j['cfg'] else '{"wrap_column":120,"always_wrap_begin":false,"format_multiline_strings":true,"use_tabs":false,"tab_width":2,"continuation_indents":2,"crlf":false}'
p=subprocess.run(['/verif/target/harness/release/pfmon','fmt',cfg],input=j['input'].encode(),capture_output=True)
print("=====OUTPUT"); print(p.stdout.decode()); print(p.stderr.decode()[-400:])
