#!/usr/bin/env bash
# the real pasfmt binary under valgrind memcheck; used as VERIF_CLI_BIN by the memcheck passes.
# VG_REAL_BIN = binary to run, VG_LOG_DIR = directory for one log per process (only errors are
# written with -q, so a non-empty log is a report). The exit status is pasfmt's own.
exec valgrind -q --error-exitcode=0 --log-file="$VG_LOG_DIR/vg.%p.log" --child-silent-after-fork=yes "$VG_REAL_BIN" "$@"
