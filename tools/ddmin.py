#!/usr/bin/env python3
"""ddmin over lines then tokens of a replay's input; predicate = python expression over `out` (and `inp`)."""
import json,subprocess,sys,re
j=json.load(open(sys.argv[1])); pred=sys.argv[2]
cfg=json.dumps(j['cfg'])
def fmt(s):
    p=subprocess.run(['/verif/target/harness/release/pfmon','fmt',cfg],input=s.encode(),capture_output=True,timeout=60)
    return p.stdout.decode(errors='replace'), p.stderr.decode(errors='replace')
def ok(s):
    try:
        out,err=fmt(s)
    except Exception: return False
    return bool(eval(pred,{'out':out,'inp':s,'err':err,'re':re}))
def ddmin(parts,join):
    n=2
    while len(parts)>=2:
        chunk=max(1,len(parts)//n); reduced=False
        for i in range(0,len(parts),chunk):
            trial=parts[:i]+parts[i+chunk:]
            if trial and ok(join(trial)):
                parts=trial; n=max(n-1,2); reduced=True; break
        if not reduced:
            if chunk==1: break
            n=min(n*2,len(parts))
    return parts
inp=j['input']
assert ok(inp), "predicate false on original"
lines=ddmin(inp.split('\n'),lambda p:'\n'.join(p))
s='\n'.join(lines)
toks=re.findall(r"\s+|[A-Za-z_0-9]+|'[^'\n]*'|\{[^}]*\}|.",s)
toks=ddmin(toks,lambda p:''.join(p))
s=''.join(toks)
print("CFG",cfg); print("=====MIN INPUT"); print(s); print("=====OUT"); print(fmt(s)[0])
