#!/bin/bash
# run every check at one tier (default quick) and print one line per property
# usage: tools/runall.sh [quick|thorough] ; VERIF_SEED is honoured
cd "$(dirname "$0")/.."
L=${VERIF_LOGDIR:-work/runall-logs}
mkdir -p "$L"
for p in C01 C02 C03 C04 C05 C06 C07 C08 C09 C10 C11 C12 C13 C14 C15 C16 C17 C18 C19; do
  s=$(date +%s)
  ./check $p ${1:-quick} > "$L/out-$p.log" 2>&1; rc=$?
  e=$(date +%s)
  echo "$p rc=$rc $((e-s))s $(grep -E '^\[C..\] (held|viol|inconcl)' "$L/out-$p.log" | cut -c1-160)"
  grep -E "^(VIOLATION|INCONCLUSIVE)" "$L/out-$p.log" | head -3
done
